#!/bin/bash
# tools/intake.sh <worktree> <seeded-id> <property> : take an independently written change out of its scratch
# worktree into /verif/seeded/<id>/ (patch.diff, demo.py), confirm the demonstration fails with it and passes
# on /repo, and remove the worktree.  The suite and the check are run afterwards by
#   VERIF_MUTANT_TESTS=1 ./vcheck selftest-sensitivity <id>
set -u
wt=$1; id=$2; prop=$3
d=/verif/seeded/$id
mkdir -p $d
git -C $wt diff > $d/patch.diff
cp $wt/demo.py $d/demo.py
( cd $wt && PYTHONPATH=$wt PYTHONDONTWRITEBYTECODE=1 timeout 300 /venv/bin/python demo.py >/tmp/intake_with.txt 2>&1 ); with=$?
( cd /repo && PYTHONPATH=/repo PYTHONDONTWRITEBYTECODE=1 timeout 300 /venv/bin/python $d/demo.py >/tmp/intake_without.txt 2>&1 ); without=$?
echo "demo with change: exit $with ; on /repo: exit $without ; patch lines: $(wc -l < $d/patch.diff)"
tail -3 /tmp/intake_with.txt
git -C /repo status --short | head -3
git -C /repo worktree remove --force $wt
