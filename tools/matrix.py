#!/venv/bin/python
"""Rewrites the detection matrix in DESIGN.md (between the MATRIX markers) from
selftest/sensitivity_last.json and seeded/*/meta.json."""
import json, os, re, sys
V = os.path.dirname(os.path.dirname(os.path.abspath(__file__)))
rep = json.load(open(os.path.join(V, "selftest", "sensitivity_last.json")))
rows = []
for r in rep["results"]:
    name = r["mutant"]
    kind = "seeded (sub-agent)" if name.startswith("seeded/") else ("revert of fix" if "revert-fix" in name else
            ("negative control" if "NEUTRAL" in name else "hand-written mutant"))
    needs = ""
    if name.startswith("seeded/"):
        m = json.load(open(os.path.join(V, name, "meta.json")))
        needs = m.get("needs_to_manifest", "")
        kind += ", round %s" % m.get("round", 1)
    sig = (r.get("signatures") or [""])[0].replace("signature: ", "")
    rows.append((r["property"], name.replace("seeded/", ""), kind, r["status"], sig[:110], needs[:160]))
rows.sort()
out = ["| property | change | kind | quick check | first signature reported | needs (seeded changes) |", "|---|---|---|---|---|---|"]
for p, n, k, st, sig, needs in rows:
    out.append("| %s | `%s` | %s | **%s** | %s | %s |" % (p, n, k, st, sig.replace("|", "\\|"), needs.replace("|", "\\|")))
out.append("")
out.append("%d of %d as expected (caught, or quiet for the negative control); wall %.0f s." % (rep["caught"], rep["total"], rep["wall_s"]))
txt = "\n".join(out)
p = os.path.join(V, "DESIGN.md")
s = open(p).read()
if "DETECTION_MATRIX_PLACEHOLDER" in s:
    s = s.replace("DETECTION_MATRIX_PLACEHOLDER", "<!-- MATRIX-BEGIN -->\n" + txt + "\n<!-- MATRIX-END -->")
else:
    s = re.sub(r"<!-- MATRIX-BEGIN -->.*<!-- MATRIX-END -->", "<!-- MATRIX-BEGIN -->\n" + txt.replace("\\", "\\\\") + "\n<!-- MATRIX-END -->", s, flags=re.S)
open(p, "w").write(s)
print("matrix rows:", len(rows))
