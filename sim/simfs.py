"""SimFS / SimClock / SimBrowser — the simulated world under the C18 I/O stack (DESIGN.md §4.1).

An in-memory POSIX-like file system rooted at /sim.  builtins.open / io.open and the os functions the
writer/reader stack uses are replaced for the duration of a run; a path under /sim (or a relative
path, resolved against the simulated cwd) goes to SimFS, anything else passes through to the real
functions (reads only: a write-mode open outside /sim during a run is a harness error).  File objects
are the real io.TextIOWrapper / io.Buffered* classes stacked on SimRaw, so buffering and
flush-on-close behave as in CPython; only bytes that reached SimRaw.write are in the file.  Every SimFS
call is an I/O event with a sequence number: the instants at which faults are placed.
"""
from __future__ import annotations

import builtins
import errno
import io
import os
import posixpath
import stat as statmod
import webbrowser

from .kernel import HarnessError

ROOT = "/sim"


class SimCrash(BaseException):
    """The simulated process dies at this I/O event (only SimFS content survives)."""


class SimInterrupt(KeyboardInterrupt):
    """^C delivered at this I/O event: the operation is abandoned, the process (and every open handle,
    which CPython then closes and flushes while unwinding) lives on."""


_REAL = {
    "open": builtins.open,
    "stat": os.stat,
    "lstat": os.lstat,
    "mkdir": os.mkdir,
    "getcwd": os.getcwd,
    "listdir": os.listdir,
    "remove": os.remove,
    "unlink": os.unlink,
    "replace": os.replace,
    "rename": os.rename,
    "rmdir": os.rmdir,
    "access": os.access,
    "os_open": os.open,
    "fdopen": os.fdopen,
    "os_close": os.close,
    "os_write": os.write,
    "os_read": os.read,
    "fsync": os.fsync,
    "ftruncate": os.ftruncate,
    "lseek": os.lseek,
    "fstat": os.fstat,
    "chmod": os.chmod,
    "utime": os.utime,
    "scandir": os.scandir,
    "chown": os.chown,
    "fchmod": os.fchmod,
    "fchown": os.fchown,
    "readlink": os.readlink,
    "webbrowser_get": webbrowser.get,
}
FD_BASE = 1 << 20      # simulated file descriptors live above any real one

WRITE_EVENTS = ("write",)
FAULT_MATCH = {
    "crash": None,                       # any event
    "interrupt": None,                   # any event
    "eio_write": ("write",),
    "enospc_write": ("write",),
    "short_write": ("write",),
    "eacces_open": ("open_w",),
    "enoent_open": ("open_w",),
    "emfile_open": ("open_w", "open_r"),
    "eexist_mkdir": ("mkdir",),
    "eio_read": ("read",),
    "short_read": ("read",),
    "eio_close": ("close_w",),
    "eagain_write": ("write",),
    "eintr_write": ("write",),
}


class _DetNames:
    """deterministic replacement for tempfile's random name sequence"""

    def __init__(self):
        self.n = 0

    def __iter__(self):
        return self

    def __next__(self):
        self.n += 1
        return "sim%06d" % self.n


class Node:
    __slots__ = ("data", "gen", "mtime")

    def __init__(self):
        self.data = bytearray()
        self.gen = 0
        self.mtime = 0.0


class SimRaw(io.RawIOBase):
    def __init__(self, fs, path, node, readable, writable, append):
        super().__init__()
        self.fs, self.path, self.node = fs, path, node
        self._r, self._w, self._append = readable, writable, append
        self.pos = len(node.data) if append else 0
        self.epoch = fs.epoch
        self.name = path
        self.mode = "rb+" if (readable and writable) else ("wb" if writable else "rb")
        fs.handles.append(self)

    def readable(self):
        return self._r

    def writable(self):
        return self._w

    def seekable(self):
        return True

    def _alive(self):
        return self.epoch == self.fs.epoch

    def readinto(self, b):
        if not self._r:
            raise io.UnsupportedOperation("not readable")
        d = self.fs.event("read", self.path)
        n = min(len(b), max(0, len(self.node.data) - self.pos))
        if d and d[0] == "short" and n > 1:
            n = max(1, min(n, d[1]))
        b[:n] = self.node.data[self.pos:self.pos + n]
        self.pos += n
        return n

    def write(self, b):
        if not self._w:
            raise io.UnsupportedOperation("not writable")
        if not self._alive():
            return len(b)        # a handle of the dead process: its buffered bytes never reach the disk
        data = bytes(b)
        d = self.fs.event("write", self.path, len(data))
        if d:
            if d[0] == "partial":
                k = min(len(data), max(0, d[1]))
                self._put(data[:k])
                raise OSError(d[2], os.strerror(d[2]), self.path)
            if d[0] == "short" and len(data) > 1:
                k = max(1, min(len(data) - 1, d[1]))
                self._put(data[:k])
                return k
        self._put(data)
        return len(data)

    def _put(self, data):
        if self._append:
            self.pos = len(self.node.data)
        nd = self.node.data
        if self.pos > len(nd):
            nd.extend(b"\0" * (self.pos - len(nd)))
        nd[self.pos:self.pos + len(data)] = data
        self.pos += len(data)
        self.node.gen += 1
        self.node.mtime = self.fs.now          # modification time = the simulated clock (stalls with it)
        self.fs.bytes_written += len(data)

    def seek(self, off, whence=0):
        if whence == 0:
            self.pos = off
        elif whence == 1:
            self.pos += off
        else:
            self.pos = len(self.node.data) + off
        if self.pos < 0:
            self.pos = 0
            raise OSError(errno.EINVAL, "negative seek")
        return self.pos

    def tell(self):
        return self.pos

    def truncate(self, size=None):
        if size is None:
            size = self.pos
        if self._alive():
            del self.node.data[size:]
            self.node.gen += 1
        return size

    def close(self):
        if self.closed:
            return
        try:
            if self._alive() and not self.fs.crashed:
                self.fs.event("close_w" if self._w else "close_r", self.path)
        finally:
            super().close()
            try:
                self.fs.handles.remove(self)
            except ValueError:
                pass
            for fd in [fd for fd, r in self.fs.fds.items() if r is self]:
                del self.fs.fds[fd]

    def fileno(self):
        # a simulated descriptor, so that os.fsync(f.fileno()) / os.fstat(f.fileno()) reach SimFS
        for fd, r in self.fs.fds.items():
            if r is self:
                return fd
        fd = FD_BASE + len(self.fs.fds) + 1
        while fd in self.fs.fds:
            fd += 1
        self.fs.fds[fd] = self
        return fd


class SimBrowser:
    def __init__(self, world):
        self.world = world

    def open(self, url, new=0, autoraise=True):
        self.world.browser_calls.append(url)
        f = self.world.take_fault("browser_error")
        if f is not None:
            raise webbrowser.Error("simulated: no runnable browser")
        return True


class SimWorld:
    """SimFS + clock + browser + the fault plan of the current operation."""

    def __init__(self, bufsize=8192, chunk=8192, t0=1.7e9):
        self.files = {}
        self.dirs = {ROOT, ROOT + "/cwd", ROOT + "/tmp"}
        self.cwd = ROOT + "/cwd"
        self.tmp = ROOT + "/tmp"
        self.bufsize, self.chunk = bufsize, chunk
        self.epoch = 0
        self.io_seq = 0
        self.handles = []
        self.fds = {}
        self.bytes_written = 0
        self.now = float(t0)
        self.sim_elapsed = 0.0
        self.browser_calls = []
        self.crashed = False
        self.in_gc = False
        self.plan = []
        self.fired = []
        self.op_events = 0
        self.op_kind = {}
        self.iolog = []
        self.installed = False
        self.active = False      # True only while an operation under test runs

    # ---- path handling --------------------------------------------------------------------------
    def resolve(self, path):
        try:
            p = os.fspath(path)
        except TypeError:
            return None
        if isinstance(p, bytes):
            p = p.decode("utf-8", "surrogateescape")
        if not isinstance(p, str):
            return None
        if not p.startswith("/"):
            p = self.cwd + "/" + p
        p = posixpath.normpath(p)
        if p == ROOT or p.startswith(ROOT + "/"):
            return p
        return None

    # ---- events and faults ------------------------------------------------------------------------
    def begin_op(self, plan):
        self.plan = [dict(f, fired=False) for f in (plan or [])]
        self.fired = []
        self.op_events = 0
        self.op_kind = {}
        self.crashed = False
        self.active = True

    def end_op(self):
        self.active = False
        self.plan = []
        self.crashed = False

    def take_fault(self, kind):
        """Non-I/O fault kinds (browser_error): fire if planned for this op."""
        if not self.active:
            return None
        for f in self.plan:
            if not f["fired"] and f["kind"] == kind:
                f["fired"] = True
                self.fired.append(kind)
                return f
        return None

    def event(self, kind, path, nbytes=0):
        if self.crashed:
            raise SimCrash()
        self.io_seq += 1
        if not self.active:
            return None
        self.op_events += 1
        self.op_kind[kind] = self.op_kind.get(kind, 0) + 1
        self.iolog.append((self.io_seq, kind))
        for f in self.plan:
            if f["fired"]:
                continue
            k = f["kind"]
            m = FAULT_MATCH.get(k, ())
            if m is None:
                if self.op_events != f.get("n", 1):
                    continue
            else:
                if kind not in m:
                    continue
                cnt = sum(self.op_kind.get(x, 0) for x in m)
                if cnt != f.get("n", 1):
                    continue
            f["fired"] = True
            self.fired.append(k)
            if k == "crash":
                self.crashed = True
                self.epoch += 1
                raise SimCrash()
            if k == "interrupt":
                raise SimInterrupt()
            if k == "eio_write":
                return ("partial", int(f.get("k", 0)), errno.EIO)
            if k == "enospc_write":
                return ("partial", int(f.get("k", 0)), errno.ENOSPC)
            if k == "short_write":
                return ("short", int(f.get("k", 1)))
            if k == "eagain_write":
                return ("partial", int(f.get("k", 0)), errno.EAGAIN)
            if k == "eintr_write":
                # a signal arrives before any byte is transferred; CPython's io layer retries by itself
                return ("partial", 0, errno.EINTR)
            if k == "eacces_open":
                raise PermissionError(errno.EACCES, "Permission denied (simulated)", path)
            if k == "enoent_open":
                raise FileNotFoundError(errno.ENOENT, "No such file or directory (simulated)", path)
            if k == "emfile_open":
                raise OSError(errno.EMFILE, "Too many open files (simulated)", path)
            if k == "eexist_mkdir":
                self.dirs.add(path)
                raise FileExistsError(errno.EEXIST, "File exists (simulated race)", path)
            if k == "eio_read":
                raise OSError(errno.EIO, "Input/output error (simulated)", path)
            if k == "short_read":
                return ("short", int(f.get("k", 1)))
            if k == "eio_close":
                raise OSError(errno.EIO, "Input/output error on close (simulated)", path)
        return None

    # ---- the file-system calls ---------------------------------------------------------------------
    def open(self, file, mode="r", buffering=-1, encoding=None, errors=None, newline=None,
             closefd=True, opener=None):
        if isinstance(file, int) and file in self.fds:
            return self.fdopen(file, mode, buffering, encoding, errors, newline, closefd)
        if opener is not None and not isinstance(file, int) and self.resolve(file) is not None:
            mm = set(mode)
            fl = os.O_RDWR if "+" in mm else (os.O_RDONLY if "r" in mm else os.O_WRONLY)
            if "w" in mm:
                fl |= os.O_CREAT | os.O_TRUNC
            elif "a" in mm:
                fl |= os.O_CREAT | os.O_APPEND
            elif "x" in mm:
                fl |= os.O_CREAT | os.O_EXCL
            fd = opener(file, fl)
            if fd in self.fds:
                f = self.fdopen(fd, mode, buffering, encoding, errors, newline, closefd)
                return f
            return _REAL["open"](fd, mode, buffering, encoding, errors, newline, closefd)
        p = self.resolve(file) if not isinstance(file, int) else None
        if p is None:
            if self.active and not isinstance(file, int) and any(c in mode for c in "wax+"):
                raise HarnessError("real file system write attempted during a simulated operation: %r" % (file,))
            return _REAL["open"](file, mode, buffering, encoding, errors, newline, closefd, opener)
        m = set(mode)
        binary = "b" in m
        reading = "r" in m
        writing = "w" in m
        appending = "a" in m
        creating = "x" in m
        updating = "+" in m
        if sum((reading, writing, appending, creating)) != 1:
            raise ValueError("invalid mode: %r" % mode)
        wr = writing or appending or creating or updating
        self.event("open_w" if wr else "open_r", p)
        if p in self.dirs:
            raise IsADirectoryError(errno.EISDIR, "Is a directory", p)
        parent = posixpath.dirname(p)
        if parent not in self.dirs:
            if parent in self.files:
                raise NotADirectoryError(errno.ENOTDIR, "Not a directory", p)
            raise FileNotFoundError(errno.ENOENT, "No such file or directory", p)
        node = self.files.get(p)
        if reading and node is None:
            raise FileNotFoundError(errno.ENOENT, "No such file or directory", p)
        if creating and node is not None:
            raise FileExistsError(errno.EEXIST, "File exists", p)
        if node is None:
            node = self.files[p] = Node()
            node.gen += 1
        if writing:
            if node.data:
                del node.data[:]
            node.gen += 1
            node.mtime = self.now
        raw = SimRaw(self, p, node, reading or updating, wr, appending)
        if binary and buffering == 0:
            return raw
        bs = self.bufsize if buffering in (-1, 1) or buffering is None else buffering
        if updating:
            buf = io.BufferedRandom(raw, bs)
        elif wr:
            buf = io.BufferedWriter(raw, bs)
        else:
            buf = io.BufferedReader(raw, max(bs, 16))
        if binary:
            return buf
        t = io.TextIOWrapper(buf, encoding or "utf-8", errors, newline, line_buffering=(buffering == 1))
        try:
            t._CHUNK_SIZE = max(1, int(self.chunk))
        except Exception:
            pass
        t.mode = mode
        return t

    def stat(self, path, *a, **kw):
        p = self.resolve(path) if not isinstance(path, int) else None
        if p is None:
            return _REAL["stat"](path, *a, **kw)
        self.event("stat", p)
        if p in self.dirs:
            return os.stat_result((statmod.S_IFDIR | 0o755, 1, 1, 2, 0, 0, 0, 0, 0, 0))
        n = self.files.get(p)
        if n is None:
            parent = posixpath.dirname(p)
            if parent in self.files:
                raise NotADirectoryError(errno.ENOTDIR, "Not a directory", p)
            raise FileNotFoundError(errno.ENOENT, "No such file or directory", p)
        mt = int(n.mtime)
        return os.stat_result((statmod.S_IFREG | 0o644, 2, 1, 1, 0, 0, len(n.data), mt, mt, mt,
                               n.mtime, n.mtime, n.mtime))

    def lstat(self, path, *a, **kw):
        if (self.resolve(path) if not isinstance(path, int) else None) is None:
            return _REAL["lstat"](path, *a, **kw)
        return self.stat(path)

    def mkdir(self, path, mode=0o777, **kw):
        p = self.resolve(path)
        if p is None:
            if self.active:
                raise HarnessError("real mkdir attempted during a simulated operation: %r" % (path,))
            return _REAL["mkdir"](path, mode, **kw)
        self.event("mkdir", p)
        if p in self.dirs or p in self.files:
            raise FileExistsError(errno.EEXIST, "File exists", p)
        parent = posixpath.dirname(p)
        if parent not in self.dirs:
            raise FileNotFoundError(errno.ENOENT, "No such file or directory", p)
        self.dirs.add(p)

    def getcwd(self):
        return self.cwd

    def listdir(self, path="."):
        p = self.resolve(path)
        if p is None:
            return _REAL["listdir"](path)
        self.event("listdir", p)
        if p not in self.dirs:
            raise FileNotFoundError(errno.ENOENT, "No such file or directory", p)
        out = set()
        for x in list(self.files) + list(self.dirs):
            if posixpath.dirname(x) == p and x != p:
                out.add(posixpath.basename(x))
        return sorted(out)

    def remove(self, path, **kw):
        p = self.resolve(path)
        if p is None:
            if self.active:
                raise HarnessError("real remove attempted during a simulated operation: %r" % (path,))
            return _REAL["remove"](path, **kw)
        self.event("remove", p)
        if p not in self.files:
            raise FileNotFoundError(errno.ENOENT, "No such file or directory", p)
        del self.files[p]

    def replace(self, src, dst, **kw):
        s, d = self.resolve(src), self.resolve(dst)
        if s is None or d is None:
            if self.active:
                raise HarnessError("real rename attempted during a simulated operation: %r" % ((src, dst),))
            return _REAL["replace"](src, dst, **kw)
        self.event("replace", d)
        if s not in self.files:
            raise FileNotFoundError(errno.ENOENT, "No such file or directory", s)
        if posixpath.dirname(d) not in self.dirs:
            raise FileNotFoundError(errno.ENOENT, "No such file or directory", d)
        node = self.files.pop(s)
        node.gen += 1
        self.files[d] = node

    def rmdir(self, path, **kw):
        p = self.resolve(path)
        if p is None:
            if self.active:
                raise HarnessError("real rmdir attempted during a simulated operation")
            return _REAL["rmdir"](path, **kw)
        self.event("rmdir", p)
        if p not in self.dirs:
            raise FileNotFoundError(errno.ENOENT, "No such file or directory", p)
        self.dirs.discard(p)

    def access(self, path, mode, **kw):
        p = self.resolve(path)
        if p is None:
            return _REAL["access"](path, mode, **kw)
        return p in self.files or p in self.dirs

    # ---- low-level descriptor API (os.open / os.fdopen / os.write ...) ------------------------------------
    def os_open(self, path, flags, mode=0o777, *, dir_fd=None):
        p = self.resolve(path)
        if p is None:
            if self.active and (flags & (os.O_WRONLY | os.O_RDWR | os.O_CREAT | os.O_TRUNC | os.O_APPEND)):
                raise HarnessError("real os.open for writing attempted during a simulated operation: %r" % (path,))
            return _REAL["os_open"](path, flags, mode, dir_fd=dir_fd)
        acc = flags & (os.O_WRONLY | os.O_RDWR)
        writing = acc in (os.O_WRONLY, os.O_RDWR)
        reading = acc in (os.O_RDONLY, os.O_RDWR)
        self.event("open_w" if (writing or flags & os.O_CREAT) else "open_r", p)
        if p in self.dirs:
            if writing:
                raise IsADirectoryError(errno.EISDIR, "Is a directory", p)
            raise HarnessError("os.open of a simulated directory is not implemented")
        if posixpath.dirname(p) not in self.dirs:
            raise FileNotFoundError(errno.ENOENT, "No such file or directory", p)
        node = self.files.get(p)
        if node is None:
            if not flags & os.O_CREAT:
                raise FileNotFoundError(errno.ENOENT, "No such file or directory", p)
            node = self.files[p] = Node()
            node.gen += 1
        elif (flags & os.O_CREAT) and (flags & os.O_EXCL):
            raise FileExistsError(errno.EEXIST, "File exists", p)
        if (flags & os.O_TRUNC) and writing:
            del node.data[:]
            node.gen += 1
        raw = SimRaw(self, p, node, reading, writing, bool(flags & os.O_APPEND))
        fd = FD_BASE + len(self.fds) + 1
        while fd in self.fds:
            fd += 1
        self.fds[fd] = raw
        return fd

    def _fd(self, fd):
        return self.fds.get(fd) if isinstance(fd, int) else None

    def fdopen(self, fd, mode="r", buffering=-1, encoding=None, errors=None, newline=None, closefd=True,
               opener=None):
        raw = self._fd(fd)
        if raw is None:
            return _REAL["fdopen"](fd, mode, buffering, encoding, errors, newline, closefd, opener)
        del self.fds[fd]                      # ownership moves to the file object
        m = set(mode)
        binary = "b" in m
        wr = bool(m & set("wax+"))
        if binary and buffering == 0:
            return raw
        bs = self.bufsize if buffering in (-1, 1) or buffering is None else buffering
        if "+" in m:
            buf = io.BufferedRandom(raw, bs)
        elif wr:
            buf = io.BufferedWriter(raw, bs)
        else:
            buf = io.BufferedReader(raw, max(bs, 16))
        if binary:
            return buf
        t = io.TextIOWrapper(buf, encoding or "utf-8", errors, newline, line_buffering=(buffering == 1))
        try:
            t._CHUNK_SIZE = max(1, int(self.chunk))
        except Exception:
            pass
        t.mode = mode
        return t

    def os_close(self, fd):
        raw = self._fd(fd)
        if raw is None:
            return _REAL["os_close"](fd)
        del self.fds[fd]
        raw.close()

    def os_write(self, fd, data):
        raw = self._fd(fd)
        if raw is None:
            return _REAL["os_write"](fd, data)
        return raw.write(data)

    def os_read(self, fd, n):
        raw = self._fd(fd)
        if raw is None:
            return _REAL["os_read"](fd, n)
        b = bytearray(n)
        k = raw.readinto(b)
        return bytes(b[:k])

    def fsync(self, fd):
        if hasattr(fd, "fileno") and not isinstance(fd, int):
            try:
                fd = fd.fileno()
            except Exception:
                return None
        raw = self._fd(fd)
        if raw is None:
            return _REAL["fsync"](fd)
        self.event("fsync", raw.path)

    def ftruncate(self, fd, length):
        raw = self._fd(fd)
        if raw is None:
            return _REAL["ftruncate"](fd, length)
        raw.truncate(length)

    def lseek(self, fd, pos, how):
        raw = self._fd(fd)
        if raw is None:
            return _REAL["lseek"](fd, pos, how)
        return raw.seek(pos, how)

    def fstat(self, fd):
        raw = self._fd(fd)
        if raw is None:
            return _REAL["fstat"](fd)
        return os.stat_result((statmod.S_IFREG | 0o644, 2, 1, 1, 0, 0, len(raw.node.data), 0, 0, 0))

    def chmod(self, path, mode, **kw):
        p = self.resolve(path) if not isinstance(path, int) else None
        if p is None and not (isinstance(path, int) and path in self.fds):
            return _REAL["chmod"](path, mode, **kw)
        return None

    def chown(self, path, uid, gid, **kw):
        p = self.resolve(path) if not isinstance(path, int) else None
        if p is None and not (isinstance(path, int) and path in self.fds):
            return _REAL["chown"](path, uid, gid, **kw)
        return None

    def fchmod(self, fd, mode):
        if fd in self.fds:
            return None
        return _REAL["fchmod"](fd, mode)

    def fchown(self, fd, uid, gid):
        if fd in self.fds:
            return None
        return _REAL["fchown"](fd, uid, gid)

    def readlink(self, path, **kw):
        p = self.resolve(path)
        if p is None:
            return _REAL["readlink"](path, **kw)
        if p in self.files or p in self.dirs:
            raise OSError(errno.EINVAL, "Invalid argument (not a symbolic link)", p)
        raise FileNotFoundError(errno.ENOENT, "No such file or directory", p)

    def utime(self, path, times=None, **kw):
        p = self.resolve(path) if not isinstance(path, int) else None
        if p is None:
            return _REAL["utime"](path, times, **kw)
        n = self.files.get(p)
        if n is None and p not in self.dirs:
            raise FileNotFoundError(errno.ENOENT, "No such file or directory", p)
        if n is not None:
            n.mtime = float(times[1]) if times else self.now

    def scandir(self, path="."):
        p = self.resolve(path)
        if p is None:
            return _REAL["scandir"](path)
        names = self.listdir(p)
        fs = self

        class _Entry:
            def __init__(self, name):
                self.name = name
                self.path = posixpath.join(os.fspath(path), name)
                self._p = posixpath.join(p, name)

            def is_dir(self, follow_symlinks=True):
                return self._p in fs.dirs

            def is_file(self, follow_symlinks=True):
                return self._p in fs.files

            def is_symlink(self):
                return False

            def stat(self, follow_symlinks=True):
                return fs.stat(self._p)

            def inode(self):
                return 1

            def __fspath__(self):
                return self.path

        class _Scan:
            def __init__(self, entries):
                self._it = iter(list(entries))

            def __iter__(self):
                return self

            def __next__(self):
                return next(self._it)

            def __enter__(self):
                return self

            def __exit__(self, *a):
                return False

            def close(self):
                pass
        return _Scan(_Entry(nm) for nm in names)

    # ---- clock ----------------------------------------------------------------------------------------
    def time(self):
        return self.now

    def advance(self, dt):
        self.now += dt
        if dt > 0:
            self.sim_elapsed += dt

    # ---- install / uninstall ----------------------------------------------------------------------
    def install(self, modules):
        """`modules`: the svgpathtools modules whose bound `time` / `gettempdir` names are seams."""
        if self.installed:
            return
        self._saved_mod = []
        builtins.open = self.open
        io.open = self.open
        os.stat = self.stat
        os.lstat = self.lstat
        os.mkdir = self.mkdir
        os.getcwd = self.getcwd
        os.listdir = self.listdir
        os.remove = self.remove
        os.unlink = self.remove
        os.replace = self.replace
        os.rename = self.replace
        os.rmdir = self.rmdir
        os.access = self.access
        os.open = self.os_open
        os.fdopen = self.fdopen
        os.close = self.os_close
        os.write = self.os_write
        os.read = self.os_read
        os.fsync = self.fsync
        os.ftruncate = self.ftruncate
        os.lseek = self.lseek
        os.fstat = self.fstat
        os.chmod = self.chmod
        os.utime = self.utime
        os.scandir = self.scandir
        os.chown = self.chown
        os.fchmod = self.fchmod
        os.fchown = self.fchown
        os.readlink = self.readlink
        # calls SimFS does not implement: on a simulated (or relative) name they must fail loudly as a
        # harness error instead of silently reaching the real file system relative to the real cwd
        self._saved_guarded = []
        for nm in ("truncate", "link", "symlink", "mkfifo", "mknod", "chroot", "chflags", "lchown", "removedirs"):
            real = getattr(os, nm, None)
            if real is None:
                continue

            def guard(path, *a, _real=real, _nm=nm, **kw):
                if self.resolve(path) is not None:
                    raise HarnessError("os.%s on a simulated path is not implemented in SimFS: %r" % (_nm, path))
                return _real(path, *a, **kw)
            self._saved_guarded.append((nm, real))
            setattr(os, nm, guard)
        import tempfile
        self._saved_tempdir = tempfile.tempdir
        tempfile.tempdir = self.tmp          # tempfile.gettempdir()/mkstemp()/NamedTemporaryFile land in SimFS
        self._saved_names = getattr(tempfile, "_name_sequence", None)
        tempfile._name_sequence = _DetNames()   # temp names are random in CPython: a seam, or replay breaks
        webbrowser.get = lambda using=None: SimBrowser(self)
        for mod in modules:
            for name, repl in (("time", self.time), ("gettempdir", lambda: self.tmp)):
                if hasattr(mod, name):
                    self._saved_mod.append((mod, name, getattr(mod, name)))
                    setattr(mod, name, repl)
        self.installed = True

    def uninstall(self):
        if not self.installed:
            return
        builtins.open = _REAL["open"]
        io.open = _REAL["open"]
        os.stat = _REAL["stat"]
        os.lstat = _REAL["lstat"]
        os.mkdir = _REAL["mkdir"]
        os.getcwd = _REAL["getcwd"]
        os.listdir = _REAL["listdir"]
        os.remove = _REAL["remove"]
        os.unlink = _REAL["unlink"]
        os.replace = _REAL["replace"]
        os.rename = _REAL["rename"]
        os.rmdir = _REAL["rmdir"]
        os.access = _REAL["access"]
        os.open = _REAL["os_open"]
        os.fdopen = _REAL["fdopen"]
        os.close = _REAL["os_close"]
        os.write = _REAL["os_write"]
        os.read = _REAL["os_read"]
        os.fsync = _REAL["fsync"]
        os.ftruncate = _REAL["ftruncate"]
        os.lseek = _REAL["lseek"]
        os.fstat = _REAL["fstat"]
        os.chmod = _REAL["chmod"]
        os.utime = _REAL["utime"]
        os.scandir = _REAL["scandir"]
        os.chown = _REAL["chown"]
        os.fchmod = _REAL["fchmod"]
        os.fchown = _REAL["fchown"]
        os.readlink = _REAL["readlink"]
        for nm, real in getattr(self, "_saved_guarded", []):
            setattr(os, nm, real)
        import tempfile
        tempfile.tempdir = self._saved_tempdir
        tempfile._name_sequence = self._saved_names
        webbrowser.get = _REAL["webbrowser_get"]
        for mod, name, val in self._saved_mod:
            setattr(mod, name, val)
        self.installed = False

    # ---- harness-side helpers (not I/O events) ------------------------------------------------------
    def gens(self):
        return {p: n.gen for p, n in self.files.items()}

    def content(self, p):
        n = self.files.get(p)
        return None if n is None else bytes(n.data)

    def kill_handles(self):
        """After a crash: every open handle belongs to the dead process."""
        self.epoch += 1
        self.handles = []
        self.fds = {}
