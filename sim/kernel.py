"""Simulation kernel: seeds, named PRNG streams, canonical event logs, digests, the batch
driver (fork pool), delta-debugging minimiser, known-findings handling, replay files and the
evidence writer.  Nothing in here draws from a PRNG or reads a clock on a logging path; the only
real clock read is the driver's wall-time accounting, which never feeds back into a run.
"""
from __future__ import annotations

import faulthandler
import hashlib
import json
import multiprocessing
import os
import sys
import time as _real_time
import traceback
from collections import Counter
from concurrent.futures import ProcessPoolExecutor, as_completed
from concurrent.futures.process import BrokenProcessPool
import random

VERIF_DIR = os.path.dirname(os.path.dirname(os.path.abspath(__file__)))
REPO_DIR = os.environ.get("VERIF_REPO", "/repo")

EXIT_OK, EXIT_VIOLATION, EXIT_HARNESS = 0, 1, 2


class HarnessError(Exception):
    """Something is wrong with the machinery (never reported as a property violation)."""


# ----------------------------------------------------------------------------------------------
# seeds and streams
# ----------------------------------------------------------------------------------------------

def H(*parts) -> int:
    """64-bit hash of the parts, independent of PYTHONHASHSEED."""
    h = hashlib.sha256(repr(parts).encode("utf-8")).digest()
    return int.from_bytes(h[:8], "big")


def run_seed_for(batch_seed: int, prop: str, tier: str, i: int) -> int:
    return H("run", int(batch_seed), prop, tier, int(i))


class Streams:
    """One integer -> independent named PRNG streams (adding a draw to one never shifts another)."""

    def __init__(self, seed: int):
        self.seed = int(seed)
        self._s = {}

    def __getitem__(self, name: str) -> random.Random:
        r = self._s.get(name)
        if r is None:
            r = self._s[name] = random.Random(H("stream", self.seed, name))
        return r


# ----------------------------------------------------------------------------------------------
# canonical values, digests
# ----------------------------------------------------------------------------------------------

def fhex(x) -> str:
    x = float(x)
    if x != x:
        return "nan"
    return x.hex()


def canon(v, extra=None):
    """Render a value canonically as JSON-able data.  `extra(v)` may return a rendering for
    library objects (or NotImplemented)."""
    if extra is not None:
        r = extra(v)
        if r is not NotImplemented:
            return r
    if v is None or isinstance(v, (bool, str)):
        return v
    if isinstance(v, int):
        return v
    if isinstance(v, float):
        return ["f", fhex(v)]
    if isinstance(v, complex):
        return ["c", fhex(v.real), fhex(v.imag)]
    tn = type(v).__module__
    if tn == "numpy":
        try:
            import numpy as np
            if isinstance(v, np.bool_):
                return bool(v)
            if isinstance(v, np.integer):
                return int(v)
            if isinstance(v, np.floating):
                return ["f", fhex(float(v))]
            if isinstance(v, np.complexfloating):
                return ["c", fhex(v.real), fhex(v.imag)]
            if isinstance(v, np.ndarray):
                return ["nd", [canon(x, extra) for x in v.tolist()]]
        except Exception:  # pragma: no cover
            pass
    if isinstance(v, (list, tuple)):
        return [canon(x, extra) for x in v]
    if isinstance(v, dict):
        return {"__dict__": sorted(([canon(k, extra), canon(x, extra)] for k, x in v.items()),
                                   key=lambda kv: json.dumps(kv[0], sort_keys=True))}
    if isinstance(v, BaseException):
        return {"exc": type(v).__name__}
    return {"obj": type(v).__name__, "repr": repr(v)}


def jdump(x) -> str:
    return json.dumps(x, sort_keys=True, separators=(",", ":"), ensure_ascii=True)


def digest_of(log) -> str:
    return hashlib.sha256(jdump(log).encode("ascii")).hexdigest()


# ----------------------------------------------------------------------------------------------
# known findings
# ----------------------------------------------------------------------------------------------

def load_known_findings():
    p = os.path.join(VERIF_DIR, "known_findings.json")
    if not os.path.exists(p):
        return []
    with open(p) as f:
        d = json.load(f)
    return d.get("findings", [])


def known_lookup(findings, prop, signature):
    """Returns the matching *known* entry (status == 'known') or None.  'fixed' entries suppress
    nothing."""
    for e in findings:
        if e.get("property") == prop and e.get("status") == "known" and e.get("signature") == signature:
            return e
    return None


# ----------------------------------------------------------------------------------------------
# minimisation (delta debugging on the explicit history)
# ----------------------------------------------------------------------------------------------

def _with_ops(hist, ops):
    h = dict(hist)
    h["ops"] = ops
    return h


def minimise(mod, hist, key, budget=400):
    """Shrink `hist` while mod.replay(hist) still shows a violation with symptom key `key`.
    Returns (min_history, result, executions)."""
    execs = [0]

    def fails(h):
        if execs[0] >= budget:
            return None
        execs[0] += 1
        try:
            r = call(lambda: mod.replay(h))
        except HarnessError:
            return None
        for v in r["violations"]:
            if v["key"] == key:
                return r
        return None

    best = hist
    best_r = fails(hist)
    if best_r is None:
        raise HarnessError("violation did not reproduce when re-executed before minimisation "
                           "(key=%r)" % (key,))
    # 0. truncate after the violating op
    for v in best_r["violations"]:
        if v["key"] == key:
            cut = v["op_index"] + 1
            if cut < len(best["ops"]):
                cand = _with_ops(best, best["ops"][:cut])
                r = fails(cand)
                if r is not None:
                    best, best_r = cand, r
            break
    # 1. ddmin over ops
    n = 2
    while len(best["ops"]) >= 2 and execs[0] < budget:
        ops = best["ops"]
        chunk = max(1, len(ops) // n)
        reduced = False
        i = 0
        while i < len(ops):
            cand_ops = ops[:i] + ops[i + chunk:]
            if cand_ops:
                r = fails(_with_ops(best, cand_ops))
                if r is not None:
                    best, best_r = _with_ops(best, cand_ops), r
                    ops = cand_ops
                    n = max(n - 1, 2)
                    reduced = True
                    continue
            i += chunk
        if not reduced:
            if chunk == 1:
                break
            n = min(len(ops), n * 2)
    # 2. property-specific simplifications (faults, arguments, classes), to a fixpoint
    progress = True
    while progress and execs[0] < budget:
        progress = False
        for cand in mod.shrink_moves(best):
            r = fails(cand)
            if r is not None:
                best, best_r = cand, r
                progress = True
                break
    # 3. one more single-op pass
    i = 0
    while i < len(best["ops"]) and len(best["ops"]) > 1 and execs[0] < budget:
        cand_ops = best["ops"][:i] + best["ops"][i + 1:]
        r = fails(_with_ops(best, cand_ops))
        if r is not None:
            best, best_r = _with_ops(best, cand_ops), r
        else:
            i += 1
    return best, best_r, execs[0]


# ----------------------------------------------------------------------------------------------
# process isolation: one simulated run = one forked child
# ----------------------------------------------------------------------------------------------

def in_child(fn, timeout_s=300):
    """Run fn() in a forked child and return its (picklable) result.  Every simulated run starts
    from the same process image, so that state a change under test keeps at module or class level
    (a cache shared by all Document objects, say) cannot leak from one run into the next: a run stays
    a pure function of (run seed, code), and a violation found in a batch replays in a fresh
    interpreter.  Raises HarnessError when the child dies or fn raises."""
    import pickle
    global _FROZEN
    if not _FROZEN:
        # everything allocated so far (numpy, scipy, xml, the library) becomes invisible to the cyclic
        # GC: children then never touch those pages, which keeps fork + copy-on-write cheap
        import gc
        gc.collect()
        gc.freeze()
        _FROZEN = True
    r, w = os.pipe()
    pid = os.fork()
    if pid == 0:
        code = 0
        try:
            os.close(r)
            faulthandler.dump_traceback_later(timeout_s, exit=True)
            try:
                data = pickle.dumps(("ok", fn()), protocol=pickle.HIGHEST_PROTOCOL)
            except BaseException as e:      # noqa: BLE001 - reported to the parent, never swallowed
                data = pickle.dumps(("err", "%r\n%s" % (e, traceback.format_exc())))
            with os.fdopen(w, "wb", closefd=True) as f:
                f.write(data)
        except BaseException:
            code = 3
        finally:
            os._exit(code)
    os.close(w)
    chunks = []
    with os.fdopen(r, "rb", closefd=True) as f:
        while True:
            b = f.read(1 << 16)
            if not b:
                break
            chunks.append(b)
    _, status = os.waitpid(pid, 0)
    data = b"".join(chunks)
    if not data:
        raise HarnessError("isolated run died without a result (wait status %d; hang watchdog or crash)" % status)
    kind, val = pickle.loads(data)
    if kind != "ok":
        raise HarnessError("isolated run raised: %s" % val)
    return val


_FROZEN = False
ISOLATE = os.environ.get("VERIF_NO_ISOLATION") != "1"


def call(fn, timeout_s=300):
    return in_child(fn, timeout_s) if ISOLATE else fn()


# ----------------------------------------------------------------------------------------------
# violations that need the process state left behind by earlier runs (a change under test that keeps
# state at module/class level): reproduce and minimise the *sequence* of runs
# ----------------------------------------------------------------------------------------------

def run_sequence(mod, hists):
    """Execute the histories one after the other in ONE fresh process; result of the last one."""
    def body():
        r = None
        for h in hists:
            r = mod.replay(h)
        return r
    return call(body, 600)


def has_key(res, key):
    return res is not None and any(v["key"] == key for v in res["violations"])


def reproduce(mod, prop, tier, summary, key):
    """Returns ('single', history) when the run's own history shows the violation in a fresh process,
    ('sequence', [histories]) when it only shows after preceding runs of its chunk; raises HarnessError
    when it cannot be reproduced at all."""
    hist = summary["history"]
    try:
        if has_key(call(lambda: mod.replay(hist)), key):
            return "single", hist
    except HarnessError:
        pass
    ch = summary.get("chunk")
    if not ch:
        raise HarnessError("violation did not reproduce in a fresh process (key=%r)" % (key,))
    runs = call(lambda: chunk_body(prop, tier, ch["seeds"], keep_all=True), 900)
    hs = [x["history"] for x in runs[:ch["pos"] + 1]]
    if not has_key(run_sequence(mod, hs), key):
        raise HarnessError("violation did not reproduce, neither alone nor after the preceding runs of its "
                           "chunk (key=%r, run_seed=%s)" % (key, summary.get("seed")))
    # drop earlier runs while the last one still fails
    i = 0
    while i < len(hs) - 1 and len(hs) > 1:
        cand = hs[:i] + hs[i + 1:]
        if has_key(run_sequence(mod, cand), key):
            hs = cand
        else:
            i += 1
    if len(hs) == 1:
        return "single", hs[0]
    return "sequence", hs


# ----------------------------------------------------------------------------------------------
# workers
# ----------------------------------------------------------------------------------------------

_MODS = {}


def get_mod(prop):
    m = _MODS.get(prop)
    if m is None:
        if prop == "C16":
            from . import c16_cache as m
        elif prop == "C18":
            from . import c18_io as m
        else:
            raise HarnessError("no simulation world for property %s" % prop)
        _MODS[prop] = m
    return m


def _summarise(prop, run_seed, hist, res, keep_hist):
    s = {
        "seed": run_seed,
        "digest": res["digest"],
        "stats": res["stats"],
        "violations": res["violations"],
    }
    if keep_hist or res["violations"]:
        s["history"] = hist
    return s


def chunk_body(prop, tier, seeds, keep_all=False):
    """Execute the runs of one chunk, in order, in the current process; returns their summaries
    (seeded runs and the runs derived from them, e.g. fault sweeps) in execution order."""
    mod = get_mod(prop)
    out = []
    for k, rs in enumerate(seeds):
        hist, res = mod.generate_and_run(rs, tier)
        out.append(_summarise(prop, rs, hist, res, keep_hist=(keep_all or k == 0)))
        if hasattr(mod, "derived"):
            for h2, r2 in mod.derived(rs, tier, hist):
                s2 = _summarise(prop, rs, h2, r2, keep_hist=keep_all)
                s2["derived"] = True
                out.append(s2)
    return out


def _work_chunk(prop, tier, seeds, sample_every, per_run_timeout):
    """One chunk = one forked child (see in_child): runs inside a chunk share a process, chunks do
    not, and a chunk is a pure function of (its seeds, code)."""
    try:
        runs = call(lambda: chunk_body(prop, tier, seeds), per_run_timeout * max(1, len(seeds)))
    except BaseException as e:  # harness failure inside a run: report, never a violation
        return {"harness_error": "chunk starting at run_seed=%d: %s\n%s" % (seeds[0], repr(e), traceback.format_exc())}
    for i, s in enumerate(runs):
        if s["violations"]:
            s["chunk"] = {"seeds": list(seeds), "pos": i}
    return {"runs": runs}


def _explicit_body(prop, hists):
    mod = get_mod(prop)
    return [_summarise(prop, h.get("seed", -1), h, mod.replay(h), keep_hist=False) for h in hists]


def _work_explicit(prop, hists, per_run_timeout):
    try:
        runs = call(lambda: _explicit_body(prop, hists), per_run_timeout * max(1, len(hists)))
    except BaseException as e:
        return {"harness_error": "explicit histories: %s\n%s" % (repr(e), traceback.format_exc())}
    return {"runs": runs}


# ----------------------------------------------------------------------------------------------
# batch driver
# ----------------------------------------------------------------------------------------------

class Batch:
    def __init__(self, prop, tier, batch_seed, workers):
        self.prop, self.tier, self.batch_seed, self.workers = prop, tier, batch_seed, workers
        self.runs = 0
        self.steps = 0
        self.digests_nontrivial = set()
        self.digests_all = set()
        self.faults = Counter()
        self.probes = Counter()
        self.classes = Counter()
        self.states = set()
        self.transitions = set()
        self.sim_time = 0.0
        self.samples = []
        self.viol_runs = []      # (summary) for runs with violations
        self.counters = Counter()
        self.harness_errors = []

    def absorb(self, s):
        st = s["stats"]
        self.runs += 1
        self.steps += st.get("steps", 0)
        self.digests_all.add(s["digest"])
        if st.get("nontrivial"):
            self.digests_nontrivial.add(s["digest"])
        self.faults.update(st.get("faults", {}))
        self.probes.update(st.get("probes", {}))
        self.counters.update(st.get("counters", {}))
        self.classes[st.get("config_class", "?")] += 1
        self.states.update(st.get("states", ()))
        self.transitions.update(st.get("transitions", ()))
        self.sim_time += st.get("sim_time", 0.0)
        if "history" in s and not s["violations"] and len(self.samples) < 3 and st.get("nontrivial"):
            self.samples.append(s["history"])
        if s["violations"]:
            self.viol_runs.append(s)


def run_batch(prop, tier, batch_seed, nruns, workers, soft_deadline_s, chunk=25,
              per_run_timeout=300, explicit=None, progress=True):
    """Run `nruns` seeded runs (and optionally a list of explicit histories) on a fork pool."""
    mod = get_mod(prop)
    b = Batch(prop, tier, batch_seed, workers)
    t0 = _real_time.monotonic()
    seeds = [run_seed_for(batch_seed, prop, tier, i) for i in range(nruns)]
    b.first_seed = seeds[0] if seeds else None
    b.last_seed = seeds[-1] if seeds else None
    tasks = []
    if explicit:       # regressions and bounded-exhaustive histories first: a deadline must not skip them
        for i in range(0, len(explicit), chunk * 4):
            tasks.append(("explicit", explicit[i:i + chunk * 4]))
    for i in range(0, len(seeds), chunk):
        tasks.append(("seeded", seeds[i:i + chunk]))
    b.truncated = False
    b.exhaustive_runs = 0
    b.derived_runs = 0
    ctx = multiprocessing.get_context("fork")
    from concurrent.futures import wait, FIRST_COMPLETED
    try:
        with ProcessPoolExecutor(max_workers=workers, mp_context=ctx) as ex:
            futs = {}
            it = iter(tasks)

            def submit_next():
                try:
                    kind, payload = next(it)
                except StopIteration:
                    return False
                if kind == "seeded":
                    f = ex.submit(_work_chunk, prop, tier, payload, True, per_run_timeout)
                else:
                    f = ex.submit(_work_explicit, prop, payload, per_run_timeout)
                futs[f] = kind
                return True

            def take(f):
                kind = futs.pop(f)
                r = f.result()
                if "harness_error" in r:
                    b.harness_errors.append(r["harness_error"])
                    return False
                for s in r["runs"]:
                    b.absorb(s)
                    if kind == "explicit":
                        b.exhaustive_runs += 1
                    if s.get("derived"):
                        b.derived_runs += 1
                return True

            for _ in range(workers * 2):
                if not submit_next():
                    break
            stop = False
            while futs and not stop:
                done, _ = wait(list(futs), return_when=FIRST_COMPLETED)
                for f in done:
                    if not take(f):
                        stop = True
                if stop:
                    break
                if _real_time.monotonic() - t0 > soft_deadline_s:
                    # soft wall-clock cap: finish what is running, start nothing new, say so in the evidence
                    b.truncated = True
                    while futs:
                        done, _ = wait(list(futs), return_when=FIRST_COMPLETED)
                        for f in done:
                            if not take(f):
                                stop = True
                    break
                for _ in range(len(done)):
                    submit_next()
            for f in list(futs):
                f.cancel()
    except BrokenProcessPool as e:
        b.harness_errors.append("worker process died (hang watchdog or crash): %r" % (e,))
    b.wall = _real_time.monotonic() - t0
    return b


# ----------------------------------------------------------------------------------------------
# replay files
# ----------------------------------------------------------------------------------------------

def write_replay(prop, hist, res, key, signature, what, sequence=None):
    d = os.path.join(VERIF_DIR, "replays")
    os.makedirs(d, exist_ok=True)
    sig_h = hashlib.sha256(signature.encode()).hexdigest()[:10]
    name = "%s-%s-%s.json" % (prop, hist.get("seed", "x"), sig_h)
    path = os.path.join(d, name)
    body = {
        "property": prop,
        "signature": signature,
        "symptom_key": key,
        "what": what,
        "expected_digest": res["digest"],
        "history": hist,
        "violations": res["violations"][:5],
    }
    if sequence is not None:
        body["sequence"] = sequence
        body["note"] = ("the violation shows in the LAST history only after the earlier ones ran in the same "
                        "process: the code under test keeps state outside its objects")
    with open(path, "w") as f:
        json.dump(body, f, indent=1)   # key order is part of a history (attribute dictionaries)
    return path


def replay_in_fresh_process(prop, path):
    """Re-execute a replay file in a fresh interpreter; returns (exit code, stdout)."""
    import subprocess
    env = dict(os.environ)
    env["PYTHONHASHSEED"] = "0"
    p = subprocess.run([sys.executable, os.path.join(VERIF_DIR, "vcheck"), prop, "--replay", path,
                        "--no-evidence"],
                       capture_output=True, text=True, env=env, timeout=600)
    return p.returncode, p.stdout + p.stderr
