"""Sensitivity self-test: every patch under /verif/mutants and /verif/seeded/*/patch.diff is applied to a
scratch copy of /repo (outside /repo and /verif, removed afterwards) and the property's quick check,
pointed at the copy with VERIF_REPO, must report a VIOLATION.  Optionally the repository's own test
suite is run on the copy to confirm the change keeps it green."""
from __future__ import annotations

import glob
import json
import os
import shutil
import subprocess
import sys
import tempfile
import time as _real_time

from .kernel import VERIF_DIR, EXIT_OK, EXIT_HARNESS

BASELINE_CMD = [sys.executable, "-m", "pytest", "-q", "-p", "no:cacheprovider", "--timeout=900",
                "--deselect", "test/test_groups.py::TestGroups::test_group_transform"]


def _patches(props):
    out = []
    for p in sorted(glob.glob(os.path.join(VERIF_DIR, "mutants", "*.patch"))):
        prop = os.path.basename(p).split("-")[0]
        out.append((prop, os.path.basename(p)[:-6], p))
    for d in sorted(glob.glob(os.path.join(VERIF_DIR, "seeded", "*"))):
        meta = os.path.join(d, "meta.json")
        pd = os.path.join(d, "patch.diff")
        if os.path.exists(meta) and os.path.exists(pd):
            prop = json.load(open(meta))["property"]
            out.append((prop, "seeded/" + os.path.basename(d), pd))
    for d in sorted(glob.glob(os.path.join(VERIF_DIR, "neutral", "*"))):
        meta = os.path.join(d, "meta.json")
        pd = os.path.join(d, "patch.diff")
        if os.path.exists(meta) and os.path.exists(pd):
            prop = json.load(open(meta))["property"]
            out.append((prop, "neutral/" + os.path.basename(d), pd))
    if props:
        out = [x for x in out if x[0] in props]
    return out


def sensitivity(args):
    t0 = _real_time.monotonic()
    results = []
    only = set(args.rest) if args.rest else None
    for prop, name, patch in _patches(args.props):
        if only and not any(o in name for o in only):
            continue
        scratch = tempfile.mkdtemp(prefix="svgpt-mut-")
        try:
            repo = os.path.join(scratch, "repo")
            shutil.copytree("/repo", repo, ignore=shutil.ignore_patterns(".git", "__pycache__", "*.pyc"))
            r = subprocess.run(["patch", "-p1", "-s", "-d", repo, "-i", patch], capture_output=True, text=True)
            if r.returncode != 0:
                results.append({"mutant": name, "property": prop, "status": "PATCH-DOES-NOT-APPLY",
                                "detail": (r.stdout + r.stderr)[-500:]})
                print("%-70s PATCH-DOES-NOT-APPLY" % name)
                continue
            tests = None
            if os.environ.get("VERIF_MUTANT_TESTS") == "1":
                tr = subprocess.run(BASELINE_CMD, cwd=repo, capture_output=True, text=True,
                                    env=dict(os.environ, PYTHONPATH=repo, PYTHONDONTWRITEBYTECODE="1"))
                tests = "pass" if tr.returncode == 0 else "FAIL"
                if tests == "FAIL":     # once more: the repository's suite has randomised tests
                    tr = subprocess.run(BASELINE_CMD, cwd=repo, capture_output=True, text=True,
                                        env=dict(os.environ, PYTHONPATH=repo, PYTHONDONTWRITEBYTECODE="1"))
                    tests = "pass(on 2nd run)" if tr.returncode == 0 else "FAIL: " + " | ".join(
                        l for l in tr.stdout.splitlines() if l.startswith("FAILED"))[:300]
            env = dict(os.environ, VERIF_REPO=repo)
            t1 = _real_time.monotonic()
            cr = subprocess.run([os.path.join(VERIF_DIR, "vcheck"), prop, "--tier", "quick", "--no-evidence"],
                                capture_output=True, text=True, env=env, cwd=VERIF_DIR)
            dt = _real_time.monotonic() - t1
            lines = [l for l in cr.stdout.splitlines() if l.startswith("VIOLATION")]
            sigs = [l.strip() for l in cr.stdout.splitlines() if l.strip().startswith("signature:")]
            status = "caught" if (cr.returncode == 1 and lines) else ("MISSED" if cr.returncode == 0 else
                                                                      "HARNESS-ERROR")
            if "NEUTRAL" in name or name.startswith("neutral/"):      # negative control: the property still holds, the check must stay quiet
                status = {"MISSED": "quiet-as-expected", "caught": "FALSE-ALARM"}.get(status, status)
            results.append({"mutant": name, "property": prop, "status": status, "check_rc": cr.returncode,
                            "check_wall_s": round(dt, 1), "signatures": sigs[:4], "suite": tests})
            print("%-70s %s  (%.0fs)%s" % (name, status, dt, "" if tests is None else "  suite=" + tests))
            if status == "HARNESS-ERROR":
                print(cr.stdout[-1500:], cr.stderr[-1500:])
            # replays written for a mutant belong to the scratch copy: do not keep them
            for l in lines:
                p = l.split("replay=")[-1].strip()
                if os.path.exists(p):
                    os.remove(p)
        finally:
            shutil.rmtree(scratch, ignore_errors=True)
    os.makedirs(os.path.join(VERIF_DIR, "selftest"), exist_ok=True)
    rep = {"results": results, "wall_s": round(_real_time.monotonic() - t0, 1),
           "caught": sum(r["status"] in ("caught", "quiet-as-expected") for r in results), "total": len(results)}
    last = os.path.join(VERIF_DIR, "selftest", "sensitivity_last.json")
    if not only:
        with open(last, "w") as f:
            json.dump(rep, f, indent=1, sort_keys=True)
    elif os.environ.get("VERIF_SENS_MERGE") == "1" and os.path.exists(last):
        # a partial run (patches that arrived after the last full run, or re-runs): its rows replace or
        # extend those of the last full report, marked as such; the totals are recomputed
        old = json.load(open(last))
        rows = {r["mutant"]: r for r in old["results"]}
        for r in results:
            rows[r["mutant"]] = dict(r, run_on_its_own=True)
        merged = sorted(rows.values(), key=lambda r: (r["property"], r["mutant"]))
        old.update(results=merged, total=len(merged),
                   caught=sum(r["status"] in ("caught", "quiet-as-expected") for r in merged),
                   wall_s=round(old.get("wall_s", 0) + rep["wall_s"], 1))
        with open(last, "w") as f:
            json.dump(old, f, indent=1, sort_keys=True)
    print("sensitivity: %d/%d caught" % (rep["caught"], rep["total"]))
    return EXIT_OK if rep["caught"] == rep["total"] else EXIT_HARNESS
