"""Command line of vcheck: batches, violation handling, evidence, replay, self-tests."""
from __future__ import annotations

import argparse
import json
import os
import subprocess
import sys
import time as _real_time

from . import kernel
from .kernel import (EXIT_OK, EXIT_VIOLATION, EXIT_HARNESS, HarnessError, VERIF_DIR, REPO_DIR,
                     get_mod, run_batch, minimise, load_known_findings, known_lookup, write_replay,
                     replay_in_fresh_process)

TIERS = {
    # property: tier: (seeded runs, soft wall deadline s, exhaustive depth)
    "C16": {"quick": (30000, 600, 2), "thorough": (1500000, 5400, 3)},
    "C18": {"quick": (6000, 600, 0), "thorough": (250000, 5400, 0)},
}
MAX_SHRINK_PER_KEY = 3
MAX_SHRINK_TOTAL = 10
MAX_SHRINK_WALL = 90.0


def _assert_repo():
    import svgpathtools
    f = os.path.realpath(svgpathtools.__file__)
    if not f.startswith(os.path.realpath(REPO_DIR) + os.sep):
        raise HarnessError("svgpathtools imported from %s, not from %s" % (f, REPO_DIR))


def load_regressions(prop):
    """Minimised histories of defects that were found by this machinery and repaired in /repo
    (known_findings.json, status 'fixed'); re-executed by every check so a regression is reported at once."""
    p = os.path.join(VERIF_DIR, "regressions", "%s.json" % prop)
    if not os.path.exists(p):
        return []
    with open(p) as f:
        return json.load(f)


def cmd_check(prop, tier, args):
    t0 = _real_time.monotonic()
    _assert_repo()
    mod = get_mod(prop)
    seed = int(os.environ.get("VERIF_SEED", "0") or 0)
    nruns, deadline, exdepth = TIERS[prop][tier]
    if args.runs is not None:
        nruns = args.runs
    if args.deadline is not None:
        deadline = args.deadline
    workers = args.workers or min(16, os.cpu_count() or 1)
    print("vcheck %s tier=%s VERIF_SEED=%d runs=%d workers=%d repo=%s" %
          (prop, tier, seed, nruns, workers, REPO_DIR))
    sys.stdout.flush()
    explicit = None
    ex_info = None
    if exdepth and hasattr(mod, "exhaustive_histories") and not args.no_exhaustive:
        explicit, ex_info = mod.exhaustive_histories(exdepth)
    regs = load_regressions(prop)
    if regs:
        explicit = (explicit or []) + [r["history"] for r in regs]
        ex_info = dict(ex_info or {}, regression_histories=len(regs))
    if args.only_regressions:
        nruns = 0
        explicit = [r["history"] for r in regs]
    b = run_batch(prop, tier, seed, nruns, workers, deadline, explicit=explicit)
    if b.harness_errors:
        for e in b.harness_errors:
            print("HARNESS-ERROR %s" % e)
        return EXIT_HARNESS

    findings = load_known_findings()
    new_violations = []      # (signature, replay path, what)
    unreproducible = []
    known_hits = {}          # signature -> [entry, count]
    unshrunk = 0
    per_key = {}
    shrink_execs = 0
    t_shrink = _real_time.monotonic()
    n_shrunk = 0
    for s in b.viol_runs:
        # one new violation decides the verdict; the rest is diagnosis, so it is bounded.  (While every
        # minimised violation so far is a *known* finding the loop goes on: an unlisted one must not hide.)
        if new_violations and (n_shrunk >= MAX_SHRINK_TOTAL or _real_time.monotonic() - t_shrink > MAX_SHRINK_WALL):
            unshrunk += 1
            continue
        keys = []
        for v in s["violations"]:
            if v["key"] not in keys:
                keys.append(v["key"])
        for key in keys:
            per_key.setdefault(key, 0)
            if per_key[key] >= MAX_SHRINK_PER_KEY:
                unshrunk += 1
                continue
            per_key[key] += 1
            n_shrunk += 1
            seq = None
            try:
                kind, what_rep = kernel.reproduce(mod, prop, tier, s, key)
                if kind == "single":
                    mh, mr, n = minimise(mod, what_rep, key)
                else:
                    seq = what_rep
                    mh, mr, n = seq[-1], kernel.run_sequence(mod, seq), len(seq)
            except HarnessError as e:
                if "did not reproduce" in str(e):
                    # e.g. a violation that hangs on which memory address a new object happens to get: it
                    # is not reported (nothing without a replay is), and it is not forgotten - if no other
                    # violating run of the batch reproduces either, the batch ends as a harness error
                    unreproducible.append("%s (run_seed=%s)" % (e, s["seed"]))
                    continue
                print("HARNESS-ERROR %s (run_seed=%s)" % (e, s["seed"]))
                return EXIT_HARNESS
            shrink_execs += n
            sig = mod.signature(mh, mr, key)
            what = mod.describe(mh, mr, key)
            ent = known_lookup(findings, prop, sig)
            if ent is not None:
                if sig not in known_hits:
                    known_hits[sig] = [ent, 0]
                known_hits[sig][1] += 1
                continue
            if any(sig == x[0] for x in new_violations):
                continue
            if seq is not None:
                sig += " | after %d earlier run(s) in the same process" % (len(seq) - 1)
            path = write_replay(prop, mh, mr, key, sig, what, sequence=seq)
            # the minimised history must reproduce in a fresh interpreter before it is reported
            rc, out = replay_in_fresh_process(prop, path)
            if rc != EXIT_VIOLATION or ("digest=%s" % mr["digest"]) not in out:
                # same rule as for a run that does not reproduce: remembered, not reported, not fatal while
                # another violating run may still reproduce
                unreproducible.append("replay of %s did not reproduce in a fresh interpreter (rc=%s)" % (path, rc))
                continue
            new_violations.append((sig, path, what))

    if unreproducible and not new_violations:
        for u in unreproducible[:5]:
            print("HARNESS-ERROR %s" % u)
        return EXIT_HARNESS
    for u in unreproducible[:5]:
        print("  (not reported, no replay: %s)" % u)
    for sig, (ent, cnt) in sorted(known_hits.items()):
        print("KNOWN-FINDING: property=%s %s [signature: %s; hit in %d minimised runs]" %
              (prop, ent.get("what", ""), sig, cnt))
    for sig, path, what in new_violations:
        print("VIOLATION property=%s replay=%s" % (prop, path))
        print("  signature: %s" % sig)
        print("  %s" % what)
    wall = _real_time.monotonic() - t0
    if not args.no_evidence:
        write_evidence(prop, tier, seed, b, wall, new_violations, known_hits, unshrunk, ex_info,
                       shrink_execs, mod)
    print("%s: runs=%d (exhaustive short histories: %d) steps=%d distinct_nontrivial=%d wall=%.1fs "
          "violations=%d known=%d%s" %
          (prop, b.runs, b.exhaustive_runs, b.steps, len(b.digests_nontrivial), wall,
           len(new_violations), len(known_hits), " TRUNCATED-BY-DEADLINE" if b.truncated else ""))
    zero = [p for p in getattr(mod, "EXPECTED_PROBES", []) if not b.probes.get(p)]
    if zero:
        print("warning: probes never hit in this batch: %s" % ", ".join(zero))
    return EXIT_VIOLATION if new_violations else EXIT_OK


def write_evidence(prop, tier, seed, b, wall, new_violations, known_hits, unshrunk, ex_info,
                   shrink_execs, mod):
    d = os.path.join(VERIF_DIR, "evidence")
    os.makedirs(d, exist_ok=True)
    hours = max(wall, 1e-9) / 3600.0
    sel = None
    p = os.path.join(VERIF_DIR, "selftest", "determinism_last.json")
    if os.path.exists(p):
        try:
            sel = json.load(open(p))
        except Exception:
            sel = None
    cov = {
        "evaluations": b.runs,
        "distinct_nontrivial": len(b.digests_nontrivial),
        "rule": mod.RULE,
        "samples": b.samples[:3],
        "steps_executed": b.steps,
        "runs_per_hour": int(b.runs / hours),
        "steps_per_hour": int(b.steps / hours),
        "seeded_runs": b.runs - b.exhaustive_runs - b.derived_runs,
        "fault_sweep_runs_derived_from_seeds": b.derived_runs,
        "exhaustive_short_history_runs": b.exhaustive_runs,
        "exhaustive_info": ex_info,
        "run_seed_first": b.first_seed,
        "run_seed_last": b.last_seed,
        "run_seed_derivation": "sha256('run', VERIF_SEED, property, tier, i)[:8] for i in range(seeded_runs)",
        "distinct_run_digests": len(b.digests_all),
        "simulated_time": mod.SIM_TIME_NOTE if not b.sim_time else
        {"simulated_clock_seconds_covered": b.sim_time},
        "configuration_classes": dict(b.classes),
        "fault_kinds_fired": dict(b.faults),
        "probes": dict(b.probes),
        "probes_expected_but_zero": [p for p in getattr(mod, "EXPECTED_PROBES", []) if not b.probes.get(p)],
        "op_counts": dict(b.counters),
        "states": len(b.states),
        "transitions": len(b.transitions),
        "state_measure": mod.STATE_MEASURE,
        "known_findings_hit": {sig: cnt for sig, (e, cnt) in known_hits.items()},
        "violating_runs_not_minimised_beyond_cap": unshrunk,
        "minimisation_executions": shrink_execs,
        "truncated_by_deadline": bool(b.truncated),
        "workers": b.workers,
        "real_vs_stub": mod.REAL_VS_STUB,
        "determinism_selftest_last": sel,
        "exhaustive": False,
    }
    ev = {
        "property_id": prop,
        "tier": tier,
        "seed": seed,
        "level": "exploration",
        "coverage": cov,
        "assumptions": mod.ASSUMPTIONS,
        "wall_s": round(wall, 3),
        "violations": len(new_violations),
    }
    with open(os.path.join(d, "%s.json" % prop), "w") as f:
        json.dump(ev, f, indent=1, sort_keys=True)


def cmd_replay(prop, path, args):
    _assert_repo()
    mod = get_mod(prop)
    with open(path) as f:
        body = json.load(f)
    hist = body["history"] if "history" in body else body
    for h in (body.get("sequence") or [])[:-1]:
        mod.replay(h)           # earlier runs of the same process, in order
    res = mod.replay(hist)
    key = body.get("symptom_key")
    hit = [v for v in res["violations"] if key is None or v["key"] == key]
    print("replay %s digest=%s" % (path, res["digest"]))
    if body.get("expected_digest") and body["expected_digest"] != res["digest"]:
        print("note: digest differs from the recorded one (%s): the code under /repo changed or the "
              "run is not deterministic" % body["expected_digest"])
    if hit:
        print("VIOLATION property=%s replay=%s" % (prop, path))
        for v in hit[:3]:
            print("  op#%d %s: %s" % (v["op_index"], v["key"], json.dumps(v["detail"], sort_keys=True)[:600]))
        return EXIT_VIOLATION
    print("no violation on replay")
    return EXIT_OK


def cmd_run_seed(prop, rs, args):
    _assert_repo()
    mod = get_mod(prop)
    hist, res = mod.generate_and_run(int(rs), "quick")
    print(json.dumps({"history": hist, "result": {k: v for k, v in res.items() if k != "stats"}},
                     indent=1, sort_keys=True))
    return EXIT_OK


def cmd_digests(prop, args):
    """print 'run_seed digest' for a seed range (used by the determinism self-test)"""
    _assert_repo()
    tier = "quick"
    b_seed = int(os.environ.get("VERIF_SEED", "0") or 0)
    mod = get_mod(prop)
    import multiprocessing
    from concurrent.futures import ProcessPoolExecutor
    seeds = [kernel.run_seed_for(b_seed, prop, tier, i) for i in range(args.runs or 200)]
    out = {}
    if (args.workers or 1) == 1:
        for rs in seeds:
            h, r = mod.generate_and_run(rs, tier)
            out[rs] = r["digest"]
    else:
        ctx = multiprocessing.get_context("fork")
        with ProcessPoolExecutor(max_workers=args.workers, mp_context=ctx) as ex:
            chunks = [seeds[i::args.workers * 3] for i in range(args.workers * 3)]
            for r in ex.map(_digest_chunk, [(prop, tier, c) for c in chunks]):
                out.update(r)
    for rs in seeds:
        print("%d %s" % (rs, out[rs]))
    return EXIT_OK


def _digest_chunk(a):
    prop, tier, seeds = a
    mod = get_mod(prop)
    return {rs: mod.generate_and_run(rs, tier)[1]["digest"] for rs in seeds}


def cmd_selftest_determinism(args):
    """Every run seed twice or more: fresh interpreters, worker counts 1/4/16, two PYTHONHASHSEEDs;
    per-run digests must be identical."""
    t0 = _real_time.monotonic()
    props = args.props or [p for p in TIERS if _has_mod(p)]
    n = args.runs or 2000
    report = {"runs_per_property": n, "properties": {}, "ok": True}
    for prop in props:
        variants = [("w1-hs0", 1, "0"), ("w4-hs12345", 4, "12345"), ("w16-hs0", 16, "0"),
                    ("w16-hs12345", 16, "12345")]
        outs = {}
        procs = []
        for name, w, hs in variants:
            env = dict(os.environ, VERIF_HASHSEED=hs, PYTHONHASHSEED=hs)
            cnt = n if w > 1 else max(50, n // 8)
            p = subprocess.Popen([sys.executable, os.path.join(VERIF_DIR, "vcheck"), "digests", prop,
                                  "--runs", str(cnt), "--workers", str(w)],
                                 stdout=subprocess.PIPE, stderr=subprocess.PIPE, text=True, env=env)
            procs.append((name, p))
            if w == 16:
                o, e = p.communicate()
                outs[name] = (p.returncode, o, e)
        for name, p in procs:
            if name not in outs:
                o, e = p.communicate()
                outs[name] = (p.returncode, o, e)
        ref = None
        diverged = []
        compared = 0
        for name, (rc, o, e) in outs.items():
            if rc != 0:
                print("HARNESS-ERROR determinism variant %s failed rc=%s\n%s" % (name, rc, e[-3000:]))
                return EXIT_HARNESS
            d = dict(l.split() for l in o.strip().splitlines())
            if ref is None:
                ref = (name, d)
                continue
            # compare on common seeds
            common = set(d) & set(ref[1])
            for k in common:
                compared += 1
                if d[k] != ref[1][k]:
                    diverged.append((k, ref[0], name))
            for k in d:
                ref[1].setdefault(k, d[k])
        report["properties"][prop] = {"variants": [v[0] for v in variants], "digest_comparisons": compared,
                                      "diverged": diverged[:10], "runs": n}
        print("determinism %s: %d digest comparisons across %s, diverged=%d" %
              (prop, compared, [v[0] for v in variants], len(diverged)))
        if diverged:
            report["ok"] = False
    report["wall_s"] = round(_real_time.monotonic() - t0, 1)
    os.makedirs(os.path.join(VERIF_DIR, "selftest"), exist_ok=True)
    p = os.path.join(VERIF_DIR, "selftest", "determinism_last.json")
    if os.path.exists(p):        # keep the last result of properties not re-run this time
        try:
            old = json.load(open(p))
            for k, v in old.get("properties", {}).items():
                report["properties"].setdefault(k, v)
        except Exception:
            pass
    with open(p, "w") as f:
        json.dump(report, f, indent=1, sort_keys=True)
    if not report["ok"]:
        print("HARNESS-ERROR nondeterminism detected")
        return EXIT_HARNESS
    return EXIT_OK


def _has_mod(p):
    try:
        get_mod(p)
        return True
    except Exception:
        return False


def main(argv):
    ap = argparse.ArgumentParser(prog="vcheck")
    ap.add_argument("what")
    ap.add_argument("rest", nargs="*")
    ap.add_argument("--tier", default=os.environ.get("VERIF_TIER") or "quick", choices=["quick", "thorough"])
    ap.add_argument("--replay")
    ap.add_argument("--runs", type=int)
    ap.add_argument("--workers", type=int)
    ap.add_argument("--deadline", type=float)
    ap.add_argument("--no-evidence", action="store_true")
    ap.add_argument("--no-exhaustive", action="store_true")
    ap.add_argument("--only-regressions", action="store_true")
    ap.add_argument("--props", nargs="*")
    args = ap.parse_args(argv)
    try:
        if args.what == "selftest-determinism":
            return cmd_selftest_determinism(args)
        if args.what == "digests":
            return cmd_digests(args.rest[0], args)
        if args.what == "run-seed":
            return cmd_run_seed(args.rest[0], args.rest[1], args)
        if args.what == "selftest-sensitivity":
            from . import selftest
            return selftest.sensitivity(args)
        prop = args.what
        if args.replay:
            return cmd_replay(prop, args.replay, args)
        return cmd_check(prop, args.tier, args)
    except HarnessError as e:
        print("HARNESS-ERROR %s" % e)
        return EXIT_HARNESS
    except Exception as e:
        import traceback
        print("HARNESS-ERROR unexpected %r\n%s" % (e, traceback.format_exc()))
        return EXIT_HARNESS
