"""C18 — I/O-world simulation with fault injection (DESIGN.md §4).

The real writer/reader stack (wsvg/disvg, Document, svg2paths/svg2paths2/svgstr2paths, SaxDocument,
svgwrite, minidom, ElementTree, expat, the io buffering classes) runs over a simulated file system,
clock, temp dir, cwd and browser.  A seeded scheduler generates histories of writes, document edits,
reads, restarts and faults (I/O errors, torn and short writes, crashes at arbitrary I/O events, races
on makedirs, short reads, browser failures, clock stalls/jumps); a reference model of files and
documents decides after every operation what each reader may return.
"""
from __future__ import annotations

import contextlib
import copy
import gc
import io
import json
import warnings

from .kernel import Streams, canon, digest_of, H, HarnessError
from .simfs import SimWorld, SimCrash, SimInterrupt, ROOT

import svgpathtools
import svgpathtools.paths2svg as sp_p2s
import svgpathtools.document as sp_doc
import svgpathtools.svg_io_sax as sp_sax
from svgpathtools import (Path, Line, QuadraticBezier, CubicBezier, Arc, wsvg, disvg, svg2paths,
                          svg2paths2, Document, SaxDocument)
from svgpathtools.svg_to_paths import svgstr2paths

NAME = "C18"


class _Null(io.TextIOBase):
    def write(self, s):
        return len(s)


_DEVNULL = _Null()
MAX_VIOLATIONS = 12
READERS = ["svg2paths", "svg2paths2", "svg2paths_stream", "svgstr2paths", "document", "document_stream",
           "document_string", "sax", "svg2paths_textstream", "document_textstream", "sax_reused"]
WRITE_OPS = ("wsvg", "disvg", "doc_save", "doc_display", "sax_resave")


# ----------------------------------------------------------------------------------------------
# geometry helpers
# ----------------------------------------------------------------------------------------------

def cz(p):
    return complex(p[0], p[1])


def fn_arg(op, name):
    """the file-name argument as the caller passes it: a str, or a pathlib.Path when op['pathlike']"""
    if name is not None and op.get("pathlike"):
        import pathlib
        return pathlib.Path(name)
    return name


def build_seg(s, pt=cz):
    k = s[0]
    if k == "L":
        return Line(pt(s[1]), pt(s[2]))
    if k == "Q":
        return QuadraticBezier(pt(s[1]), pt(s[2]), pt(s[3]))
    if k == "C":
        return CubicBezier(pt(s[1]), pt(s[2]), pt(s[3]), pt(s[4]))
    if k == "A":
        return Arc(pt(s[1]), cz(s[2]), float(s[3]), bool(s[4]), bool(s[5]), pt(s[6]))
    raise HarnessError("bad segment spec %r" % (s,))


def _npz(p):
    import numpy as np
    return np.complex128(complex(p[0], p[1]))


def build_path(spec):
    """spec['np']: control points are numpy scalars, as array indexing, seg.point(np_t) or Path.rotated()
    hand them out - equal values, another type"""
    return Path(*[build_seg(s, _npz if spec.get("np") else cz) for s in spec["segs"]])


def clone_by_value(p):
    """an independent Path with the same current defining values (the model must not see later edits)"""
    out = []
    for s in p:
        if isinstance(s, Line):
            out.append(Line(s.start, s.end))
        elif isinstance(s, QuadraticBezier):
            out.append(QuadraticBezier(s.start, s.control, s.end))
        elif isinstance(s, CubicBezier):
            out.append(CubicBezier(s.start, s.control1, s.control2, s.end))
        else:
            out.append(copy.deepcopy(s))
    return Path(*out)


def _rel_close(a, b, rtol):
    return a == b or abs(a - b) <= rtol * max(abs(a), abs(b))


def seg_equal(a, b):
    """Equality under the d-string round-trip guarantee (C01): exact, except radii of arcs that
    had been auto-enlarged (<= 1e-12 relative)."""
    if type(a) is not type(b):
        return False
    if isinstance(a, Arc):
        return (a.start == b.start and a.end == b.end and a.rotation == b.rotation
                and a.large_arc == b.large_arc and a.sweep == b.sweep
                and _rel_close(a.radius.real, b.radius.real, 1e-12)
                and _rel_close(a.radius.imag, b.radius.imag, 1e-12))
    return a == b


def path_equal(a, b):
    try:
        return len(a) == len(b) and all(seg_equal(x, y) for x, y in zip(a, b))
    except Exception:
        return False


def path_repr(p):
    try:
        return p.d()
    except Exception:
        return repr(p)


# group transforms (Document.add_group(group_attribs={'transform': ...})): the string the caller supplies
# and, computed here by hand (not with the library's parse_transform), the matrix SVG gives it
def _mat(a, b, c, d, e, f):
    return ((a, c, e), (b, d, f), (0.0, 0.0, 1.0))


GROUP_TRANSFORMS = {
    "translate(3,4)": _mat(1, 0, 0, 1, 3, 4),
    "translate(-2.5)": _mat(1, 0, 0, 1, -2.5, 0),
    "scale(2)": _mat(2, 0, 0, 2, 0, 0),
    "scale(2,-3)": _mat(2, 0, 0, -3, 0, 0),
    "rotate(90)": _mat(0, 1, -1, 0, 0, 0),
    "matrix(1,0,0,1,5,6)": _mat(1, 0, 0, 1, 5, 6),
    "matrix(0.5,1,-1,0.5,10,-20)": _mat(0.5, 1, -1, 0.5, 10, -20),
    "translate(1,2) scale(2)": _mat(2, 0, 0, 2, 1, 2),
    "skewX(45)": _mat(1, 0, 1, 1, 0, 0),
}
IDENT = _mat(1, 0, 0, 1, 0, 0)


def mat_mul(m, n):
    return tuple(tuple(sum(m[i][k] * n[k][j] for k in range(3)) for j in range(3)) for i in range(3))


def mat_apply(m, z):
    return complex(m[0][0] * z.real + m[0][1] * z.imag + m[0][2], m[1][0] * z.real + m[1][1] * z.imag + m[1][2])


def path_equal_tf(a, m, b):
    """b is what a under the affine map m looks like: same number and kinds of segments (a Line stays a
    Line, a Bezier a Bezier of its degree, an Arc an Arc) and, affine maps commuting with point(), the
    same point at the same parameter - to 1e-7 of the path's coordinates' magnitude, which tells 'applied' from
    'not applied', 'applied twice' or 'applied in the wrong order', and nothing finer."""
    try:
        if len(a) != len(b):
            return False
        # the yardstick is the size of the whole path's coordinates, not of the one point: point(t) of a
        # segment whose ends differ by 10 orders of magnitude cancels (start + t*(end-start)), before
        # and after the map differently
        scale = 1.0
        for x in a:
            for z in (x.bpoints() if hasattr(x, "bpoints") else (x.start, x.end)):
                scale = max(scale, abs(mat_apply(m, z)))
        for x, y in zip(a, b):
            if type(x) is not type(y):
                return False
            for t in (0.0, 0.3, 0.5, 0.8, 1.0):
                want, got = mat_apply(m, x.point(t)), y.point(t)
                if not abs(want - got) <= 1e-7 * scale:
                    return False
        return True
    except Exception:
        return False


# ----------------------------------------------------------------------------------------------
# reference model
# ----------------------------------------------------------------------------------------------

class PNode:
    __slots__ = ("pid", "path", "attrs")

    def __init__(self, pid, path, attrs):
        self.pid, self.path, self.attrs = pid, path, attrs


class GNode:
    __slots__ = ("name", "attrs", "children")

    def __init__(self, name, attrs):
        self.name, self.attrs, self.children = name, dict(attrs or {}), []


class Tree:
    __slots__ = ("svg_attrs", "children", "writer", "shapes", "dless", "base_tf")

    def __init__(self, svg_attrs=None, writer="?"):
        self.svg_attrs = dict(svg_attrs or {})
        self.children = []
        self.writer = writer
        self.shapes = False      # the document also holds circles/rects/... (not modelled, filtered on read)
        self.dless = False       # ... or a <path> without d: svg2paths refuses such a file (KeyError), by design
        self.base_tf = IDENT     # a sub-tree handed to match(): what its ancestors contribute

    def clone(self):
        def cl(n):
            if isinstance(n, PNode):
                return PNode(n.pid, n.path, None if n.attrs is None else dict(n.attrs))
            g = GNode(n.name, n.attrs)
            g.children = [cl(c) for c in n.children]
            return g
        t = Tree(self.svg_attrs, self.writer)
        t.children = [cl(c) for c in self.children]
        t.shapes = self.shapes
        t.dless = self.dless
        t.base_tf = self.base_tf
        return t

    def flat(self):
        """[(PNode, parent key)] in document order"""
        out = []

        def walk(children, key):
            for i, c in enumerate(children):
                if isinstance(c, PNode):
                    out.append((c, key))
                else:
                    walk(c.children, key + (c.name, i))
        walk(self.children, ())
        return out

    def flat_tf(self):
        """For every entry of flat(): the matrix its ancestor groups give it (outermost applied last), or
        None when no group on the way has a transform."""
        out = []

        def walk(children, m, any_tf):
            for c in children:
                if isinstance(c, PNode):
                    out.append(m if any_tf else None)
                else:
                    t = c.attrs.get("transform")
                    if t is not None:
                        walk(c.children, mat_mul(m, GROUP_TRANSFORMS[t]), True)
                    else:
                        walk(c.children, m, any_tf)
        walk(self.children, self.base_tf, self.base_tf != IDENT)
        return out

    def has_transforms(self):
        return any(m is not None for m in self.flat_tf())

    def arc_under_transform(self):
        """An Arc inside a group with a transform: what transform() makes of an Arc is C10's subject (on the
        pinned tree it raises TypeError for some matrices and mis-rotates already rotated arcs - the
        repository's own test_group_transform fails); nothing about such an entry is judged here."""
        return any(m is not None and any(isinstance(sg, Arc) for sg in e.path)
                   for (e, _), m in zip(self.flat(), self.flat_tf()))

    def has_opaque_groups(self):
        def walk(children):
            for c in children:
                if isinstance(c, GNode):
                    if isinstance(c.name, str) and c.name.startswith("str:"):
                        return True
                    if walk(c.children):
                        return True
            return False
        return walk(self.children)

    def shape(self):
        gs = [c for c in self.children if isinstance(c, GNode)]
        if not self.children:
            return "empty"
        if not gs:
            return "flat"
        if any(isinstance(c, GNode) for g in gs for c in g.children):
            return "nested"
        return "grouped"

    def find_group(self, names):
        cur = self
        for nm in names:
            nxt = None
            for c in cur.children:
                if isinstance(c, GNode) and c.name == nm:
                    nxt = c
                    break
            if nxt is None:
                return None
            cur = nxt
        return cur


class FileModel:
    __slots__ = ("alts", "status")

    def __init__(self, alts, status):
        self.alts, self.status = alts, status


class DocModel:
    __slots__ = ("obj", "tree", "elems", "origin", "dirty", "path_elems")

    def __init__(self, obj, tree, origin):
        self.obj, self.tree, self.origin = obj, tree, origin
        self.path_elems = {}    # pid -> (Element returned by add_path, model node)
        self.elems = {}     # names tuple -> Element handle returned by the library
        self.dirty = False


# ----------------------------------------------------------------------------------------------
# matching reader output against a model tree
# ----------------------------------------------------------------------------------------------

WELL_KNOWN_NS = {"xml": "http://www.w3.org/XML/1998/namespace", "xlink": "http://www.w3.org/1999/xlink",
                 "ev": "http://www.w3.org/2001/xml-events"}


def clark(key, nsmap=None):
    """'pfx:local' -> '{uri}local' (ElementTree's notation), using the document's declarations where the
    reader hands them out and the prefixes svgwrite declares on every root otherwise."""
    if key.startswith("{") or ":" not in key or key.startswith("xmlns"):
        return key
    pfx, local = key.split(":", 1)
    uri = (nsmap or {}).get(pfx) or WELL_KNOWN_NS.get(pfx)
    return "{%s}%s" % (uri, local) if uri else key


def clark_dict(d, nsmap=None):
    return {clark(k, nsmap): v for k, v in d.items()}


def nsmap_of(svg_attrs):
    return {k[6:]: v for k, v in (svg_attrs or {}).items() if k.startswith("xmlns:")}


def is_path_elem(el):
    t = getattr(el, "tag", "")
    return isinstance(t, str) and (t == "path" or t.endswith("}path"))


def attr_text(v):
    """what a supplied attribute value looks like in the file: numbers (wsvg accepts them) as str(v)"""
    return v if isinstance(v, str) else str(v)


def style_keys(attrs):
    """property names declared in a `style` attribute"""
    st = (attrs or {}).get("style")
    if not isinstance(st, str) or not st:
        return ()
    return tuple(x.split(":")[0] for x in st.split(";") if ":" in x)


def sax_effective(attrs):
    """What SaxDocument holds for a path: the attributes, with style declarations taking precedence."""
    out = {k: attr_text(v) for k, v in (attrs or {}).items()}
    st = out.get("style")
    if st:
        for x in st.split(";"):
            if ":" in x:
                k, v = x.split(":", 1)
                out[k] = v
    return out


def match(result, tree, reader, check_attrs=True, attr_filter=None):
    """result = (paths, attr dicts, svg attrs or None).  Returns None when it matches the tree, else
    (family, detail)."""
    paths, attrs, svg_attrs = result[:3]
    # attribute names with a namespace prefix: readers return either the qualified name (minidom) or
    # ElementTree's {uri}local form - the same attribute; compare in the latter
    nsm = dict(result[3]) if len(result) > 3 and result[3] else {}
    nsm.update(nsmap_of(svg_attrs))
    if attrs is not None:
        attrs = [clark_dict(a, nsm) if hasattr(a, "items") else a for a in attrs]
    if svg_attrs is not None:
        svg_attrs = clark_dict(svg_attrs, nsm)
    exp = tree.flat()
    tfs = tree.flat_tf()
    # a path inside a group with a transform: Document applies it (that is what flattening means),
    # svg2paths* hand out the d attribute as it stands (documented), SaxDocument computes the matrix but
    # today does not apply it in flatten_all_paths - either answer is accepted from it
    tf_mode = "apply" if reader.startswith("document") else ("either" if reader.startswith("sax") else "raw")

    def geq(i, q):
        e, m = exp[i][0], tfs[i]
        if m is None or tf_mode == "raw":
            return path_equal(e.path, q)
        if any(isinstance(sg, Arc) for sg in e.path):
            try:
                return len(q) == len(e.path)          # C10's subject, see Tree.arc_under_transform
            except Exception:
                return False
        if tf_mode == "apply":
            return path_equal_tf(e.path, m, q)
        return path_equal(e.path, q) or path_equal_tf(e.path, m, q)
    if len(paths) < len(exp):
        return ("missing", {"expected": len(exp), "got": len(paths)})
    if len(paths) > len(exp):
        return ("extra", {"expected": len(exp), "got": len(paths)})
    if attrs is not None and len(attrs) != len(paths):
        return ("attr_mispaired", {"paths": len(paths), "attribute_dicts": len(attrs)})
    n = len(exp)
    # candidates: by id where the id is present on both sides, else by geometry (duplicates are
    # interchangeable); then look for a pairing that keeps the order within every parent
    got_ids = {}
    use_ids = attrs is not None and (attr_filter is None or "id" in attr_filter)
    if use_ids:
        for j, a in enumerate(attrs):
            v = a.get("id") if hasattr(a, "get") else None
            if v is not None:
                got_ids.setdefault(v, []).append(j)
    cand = []
    for i, (e, key) in enumerate(exp):
        c = None
        if use_ids and e.attrs is not None and "id" in e.attrs and attr_text(e.attrs["id"]) in got_ids:
            c = [j for j in got_ids[attr_text(e.attrs["id"])]]
            good = [j for j in c if geq(i, paths[j])]
            if not good:
                if any(geq(i, q) for q in paths):
                    return ("attr_mispaired", {"id": e.attrs.get("id"), "expected": path_repr(e.path),
                                               "got": path_repr(paths[c[0]])})
                return ("geometry", {"expected": path_repr(e.path), "got": path_repr(paths[c[0]]),
                                     "group_transform": tfs[i]})
            c = good
        else:
            c = [j for j in range(n) if geq(i, paths[j])]
            if not c:
                return ("geometry", {"expected": path_repr(e.path), "group_transform": tfs[i],
                                     "got_at_same_index": path_repr(paths[i]) if i < len(paths) else None})
        cand.append(c)

    # svg2paths* and SaxDocument return DOCUMENT order (a depth-first walk of the file), which is
    # unambiguous whatever the grouping; Document.paths() walks groups its own way, so for it only the
    # order within one parent element is required (DESIGN 4.5)
    total_order = reader.startswith(("svg2paths", "svgstr2paths", "sax")) and not tree.has_opaque_groups()
    # (a group given as ONE plain string is kept opaque in the model - today the library nests one group
    #  per character, so two such names that share a prefix share outer groups and the model cannot
    #  know the document order across them)

    def search(ordered):
        used = [False] * n
        out = [None] * n
        last = {}
        budget = [20000]

        def rec(i):
            if i == n:
                return True
            budget[0] -= 1
            if budget[0] < 0:
                raise OverflowError
            key = "*" if total_order else exp[i][1]
            lo = last.get(key, -1) if ordered else -1
            for j in cand[i]:
                if used[j] or j <= lo:
                    continue
                used[j] = True
                out[i] = j
                prev = last.get(key)
                last[key] = j
                if rec(i + 1):
                    return True
                used[j] = False
                if prev is None:
                    last.pop(key, None)
                else:
                    last[key] = prev
            return False
        try:
            return out if rec(0) else None
        except OverflowError:
            return "inconclusive"

    # interchangeable candidates (same geometry, same id) may still differ in their attributes: prefer a
    # pairing under which every supplied attribute is there, and only diagnose when there is none
    def attrs_ok(e, j):
        if not (check_attrs and attrs is not None and e.attrs):
            return True
        a = attrs[j]
        styled = style_keys(e.attrs) if reader.startswith("sax") else ()
        for k0, v in e.attrs.items():
            if (attr_filter is not None and k0 not in attr_filter) or k0 in styled or k0 == "d":
                continue
            if a.get(clark(k0)) != attr_text(v):
                return False
        return True
    loose_cand = cand
    cand = [[j for j in cs if attrs_ok(exp[i][0], j)] for i, cs in enumerate(loose_cand)]
    pairing = search(True) if all(cand) else None
    if pairing is None or pairing == "inconclusive":
        cand = loose_cand
        pairing = search(True)
    if pairing == "inconclusive":
        return None
    if pairing is None:
        loose = search(False)
        if loose is None:
            return ("geometry", {"note": "no one-to-one pairing of written and returned paths",
                                 "expected": [path_repr(e.path) for e, _ in exp][:6],
                                 "got": [path_repr(q) for q in paths][:6]})
        if loose == "inconclusive":
            return None
        return ("reordered", {"expected_order": [x[0].pid for x in exp], "got_positions": loose})
    if check_attrs and attrs is not None:
        for i, (e, key) in enumerate(exp):
            if not e.attrs:
                continue
            a = attrs[pairing[i]]
            styled = style_keys(e.attrs) if reader.startswith("sax") else ()
            for k0, v in e.attrs.items():
                if attr_filter is not None and k0 not in attr_filter:
                    continue
                if k0 in styled:
                    continue    # SaxDocument gives a style declaration precedence over the attribute (CSS rule)
                if k0 == "d":
                    continue    # a 'd' among the attributes never replaces the path's own geometry
                v = attr_text(v)
                k = clark(k0)
                if k not in a:
                    return ("attr_lost", {"pid": e.pid, "key": k, "value": v})
                if a[k] != v:
                    others = [x[0].attrs.get(k) for x in exp if x[0].attrs and x[0] is not e]
                    fam = "attr_mispaired" if a[k] in others else "attr_changed"
                    return (fam, {"pid": e.pid, "key": k, "expected": v, "got": a[k]})
    if check_attrs and svg_attrs is not None:
        for k0, v in tree.svg_attrs.items():
            k = clark(k0)
            if k not in svg_attrs:
                return ("svgattr_lost", {"key": k, "value": v})
            if svg_attrs[k] != v:
                return ("svgattr_changed", {"key": k, "expected": v, "got": svg_attrs[k]})
    return None


# ----------------------------------------------------------------------------------------------
# the world
# ----------------------------------------------------------------------------------------------

DLESS = 7      # index of the <path> without a d attribute in SHAPES
#               (index 8: a path WITH its own transform; what a reader makes of the transform differs by
#                design - svg2paths ignores it, Document and SaxDocument apply it - so that element is not
#                modelled; what is checked is that it does not disturb the paths around it)
SHAPES = ['<rect x="1" y="2" width="30" height="40" fill="none"/>', '<circle cx="5" cy="5" r="2" id="c1"/>',
          '<ellipse cx="1" cy="2" rx="3" ry="4"/>', '<line x1="0" y1="0" x2="10" y2="5" stroke="red"/>',
          '<polyline points="0,0 1,1 2,0" class="pl"/>', '<polygon points="0,0 4,4 8,0"/>',
          '<rect x="0" y="0" width="5" height="5" rx="1" ry="1"/>', '<path id="placeholder" class="todo"/>',
          '<path d="M 1,1 L 2,3" transform="translate(30,40)" id="moved"/>']


class ShortReadStream(io.RawIOBase):
    """A caller-supplied binary stream that returns fewer bytes than asked (legal for any stream)."""

    def __init__(self, data, step):
        super().__init__()
        self.data, self.pos, self.step = data, 0, max(1, step)

    def readable(self):
        return True

    def read(self, n=-1):
        if n is None or n < 0:
            n = len(self.data) - self.pos
        n = min(n, self.step, len(self.data) - self.pos)
        out = self.data[self.pos:self.pos + n]
        self.pos += n
        return bytes(out)

    def readinto(self, b):
        d = self.read(len(b))
        b[:len(d)] = d
        return len(d)


class World:
    def __init__(self, config):
        warnings.simplefilter("ignore")
        self.config = config
        self.fs = SimWorld(bufsize=int(config.get("bufsize", 8192)), chunk=int(config.get("chunk", 8192)),
                           t0=float(config.get("t0", 1.7e9)))
        self.readers = list(config.get("readers") or READERS)
        self.files = {}
        self.docs = {}
        self.named_lists = {}
        self.path_objs = {}      # reuse key -> live Path object (volatile: gone after a restart)
        self.sax_obj = None      # a SaxDocument object kept between reads (volatile)
        self.encodings = {}      # file -> text encoding, for the harness's own text-mode/str adapters
        self.log = []
        self.violations = []
        self.faults = {}
        self.probes = {}
        self.counters = {}
        self.states = set()
        self.transitions = set()
        self.nontrivial = False
        self.seq = 0
        self.last_op_events = self.last_op_writes = 0
        self.fs.install([sp_p2s, sp_doc, sp_sax])

    def close(self):
        self.fs.uninstall()
        self.docs.clear()
        gc.collect()

    # ---- bookkeeping --------------------------------------------------------------------------------
    def bump(self, d, k, n=1):
        d[k] = d.get(k, 0) + n

    def probe(self, k):
        self.bump(self.probes, k)

    def violate(self, idx, family, detail, writer="-", shape="-", reader="-", fault="-"):
        key = "%s|%s|%s" % (family, writer, reader)
        if len(self.violations) < MAX_VIOLATIONS:
            self.violations.append({"key": key, "family": family, "op_index": idx, "writer": writer,
                                    "shape": shape, "reader": reader, "fault": fault, "detail": detail})

    # ---- running library code under the fault plan ------------------------------------------------------
    def run(self, op, fn):
        """Returns (status, value, fired) with status in ok | raised:<Type> | crashed."""
        fs = self.fs
        plan = op.get("faults") or []
        fs.begin_op(plan)
        val = None
        try:
            try:
                with contextlib.redirect_stdout(_DEVNULL):     # disvg prints when the browser fails
                    val = fn()
                status = "ok"
            except SimCrash:
                status = "crashed"
            except SimInterrupt:
                status = "raised:SimInterrupt"
            except HarnessError:
                raise
            except RecursionError:
                status = "raised:RecursionError"
            except Exception as e:
                status = "raised:%s" % type(e).__name__
            if fs.crashed:
                status = "crashed"          # a crash swallowed by a bare `except:` is still a crash
            fired = list(fs.fired)
            self.last_op_events = fs.op_events
            self.last_op_writes = fs.op_kind.get("write", 0)
        finally:
            fs.end_op()
        for k in fired:
            self.bump(self.faults, k)
        if status == "crashed":
            val = None
            self._after_crash()
        elif fs.handles:
            gc.collect()
            if fs.handles:
                self.probe("handle_left_open_after_operation")
        return status, val, fired

    def _after_crash(self):
        # the process is gone: volatile objects and open handles with it; SimFS content survives
        if any(d.dirty for d in self.docs.values()):
            self.probe("crash_or_restart_with_dirty_document")
        self.docs.clear()
        self.named_lists.clear()
        self.path_objs.clear()
        self.sax_obj = None
        self.fs.kill_handles()
        gc.collect()
        self.fs.kill_handles()
        self.probe("crash_restart")

    # ---- readers (fault-free unless run through self.run) ----------------------------------------------
    def read_with(self, reader, name):
        """Returns ('ok', (paths, attrs, svg_attrs, nsmap)) or ('raised', type name).  nsmap: the
        namespace declarations found in the file (harness-side look at SimFS, not an I/O event), used
        only to put prefixed attribute names into one notation."""
        oc = self._read_with(reader, name)
        if oc[0] != "ok":
            return oc
        data = self.fs.content(self.fs.resolve(str(name))) or b""
        import re
        nsmap = {m.group(1).decode(): m.group(2).decode("utf-8", "replace")
                 for m in re.finditer(rb'xmlns:([A-Za-z_][\w.-]*)="([^"]*)"', data)}
        return ("ok", tuple(oc[1]) + (nsmap,))

    def _read_with(self, reader, name):
        fs = self.fs
        try:
            def only_paths(p, a):
                # the property speaks about paths: circles/rects/... that a file also holds (disvg's nodes=,
                # shapes in a hand-made file) are returned by the readers as converted paths, by design;
                # they are recognised by having no `d` attribute of their own and left out of the comparison
                if len(p) != len(a):
                    return p, a            # the two lists do not even pair up: let the comparison say so
                keep = [i for i, x in enumerate(a) if "d" in x and "transform" not in x]
                return [p[i] for i in keep], [a[i] for i in keep]
            if reader == "svg2paths":
                p, a = svg2paths(name)
                p, a = only_paths(p, a)
                return ("ok", (p, a, None))
            if reader == "svg2paths2":
                p, a, s = svg2paths2(name)
                p, a = only_paths(p, a)
                return ("ok", (p, a, s))
            if reader == "svg2paths_textstream":
                with open(name, "r", encoding=self.enc_of(name)) as f:
                    p, a, s = svg2paths(f, return_svg_attributes=True)
                p, a = only_paths(p, a)
                return ("ok", (p, a, s))
            if reader == "svg2paths_stream":
                data = fs.content(fs.resolve(str(name)))
                if data is None:
                    raise FileNotFoundError(name)
                # the raw object itself: read(n) hands out at most `short_step` bytes per call, as any
                # stream may (a BufferedReader around it would hide that from a single big read())
                st = ShortReadStream(data, self.config.get("short_step", 7))
                p, a, s = svg2paths(st, return_svg_attributes=True)
                p, a = only_paths(p, a)
                return ("ok", (p, a, s))
            if reader == "svgstr2paths":
                data = fs.content(fs.resolve(str(name)))
                if data is None:
                    raise FileNotFoundError(name)
                p, a, s = svgstr2paths(data.decode(self.enc_of(name)), return_svg_attributes=True)
                p, a = only_paths(p, a)
                return ("ok", (p, a, s))
            if reader in ("document", "document_stream", "document_string", "document_textstream"):
                if reader == "document":
                    doc = Document(name)
                elif reader == "document_stream":
                    if self.config.get("short_step", 7) < 50:
                        data = fs.content(fs.resolve(str(name)))
                        if data is None:
                            raise FileNotFoundError(name)
                        doc = Document(ShortReadStream(data, self.config.get("short_step", 7)))
                    else:
                        with open(name, "rb") as f:
                            doc = Document(f)
                elif reader == "document_textstream":
                    with open(name, "r", encoding=self.enc_of(name)) as f:
                        doc = Document(f)
                else:
                    data = fs.content(fs.resolve(str(name)))
                    if data is None:
                        raise FileNotFoundError(name)
                    doc = Document.from_svg_string(data.decode(self.enc_of(name)))
                ps = [q for q in doc.paths() if is_path_elem(q.element) and "d" in q.element.attrib
              and "transform" not in q.element.attrib]
                return ("ok", (ps, [dict(q.element.attrib) for q in ps], dict(doc.root.attrib)))
            if reader == "sax_reused":
                # ONE reader object used for one file after the other (sax_parse is a public method)
                sx = self.sax_obj
                if sx is None:
                    sx = self.sax_obj = SaxDocument(name)
                else:
                    self.probe("reader_object_used_for_a_second_file")
                    sx.sax_parse(name)
                ps = sx.flatten_all_paths()
                keep = [i for i, v in enumerate(sx.tree) if v.get("name", "path") == "path" and v.get("d", "x") != ""
                        and not ("transform" in v and v.get("id") == "moved")]
                return ("ok", ([ps[i] for i in keep], [dict(sx.tree[i]) for i in keep], dict(sx.root_values)))
            if reader == "sax":
                sx = SaxDocument(name)
                ps = sx.flatten_all_paths()
                keep = [i for i, v in enumerate(sx.tree) if v.get("name", "path") == "path" and v.get("d", "x") != ""
                        and not ("transform" in v and v.get("id") == "moved")]
                return ("ok", ([ps[i] for i in keep], [dict(sx.tree[i]) for i in keep], dict(sx.root_values)))
        except SimCrash:
            raise
        except HarnessError:
            raise
        except Exception as e:
            if reader == "sax_reused":
                self.sax_obj = None
            return ("raised", type(e).__name__)
        raise HarnessError("unknown reader %r" % reader)

    def enc_of(self, name):
        """utf-8-sig/latin-1 for hand-made files; every writer of the library produces utf-8 (or ASCII)"""
        p = self.fs.resolve(str(name))
        e = self.encodings.get(p, "utf-8")
        data = self.fs.content(p) or b""
        if data.startswith(b"\xef\xbb\xbf") and e.lower() == "utf-8":
            return "utf-8-sig"
        return e

    def verify_file(self, idx, name, readers=None, writer="-", fault="-"):
        fm = self.files.get(name)
        if fm is None:
            return
        for rd in (readers or self.readers):
            oc = self.read_with(rd, name)
            self.bump(self.counters, "readback:" + rd)
            self.judge_read(idx, name, fm, rd, oc, writer, fault)

    def judge_read(self, idx, name, fm, rd, oc, writer, fault):
        tree0 = fm.alts[-1]
        afilter = tree0.svg_attrs.get("__attr_filter__") if False else None
        if fm.status == "complete":
            tree = fm.alts[0]
            if oc[0] != "ok" and tree.dless and rd.startswith(("svg2paths", "svgstr2paths")) and oc[1] == "KeyError":
                # a <path> without d: svg2paths refuses the whole file; refusing is allowed, wrong data is not
                self.probe("svg2paths_refused_file_with_dless_path")
                return
            if oc[0] != "ok" and rd.startswith(("document", "sax")) and tree.arc_under_transform():
                self.probe("arc_under_group_transform_not_judged")
                return
            if oc[0] != "ok":
                self.violate(idx, "read_failed", {"file": name, "raised": oc[1]}, tree.writer, tree.shape(), rd, fault)
                return
            m = match(oc[1], tree, rd)
            if m is not None:
                self.violate(idx, m[0], dict(m[1], file=name), tree.writer, tree.shape(), rd, fault)
            else:
                self.nontrivial = True
                self.bump(self.counters, "acknowledged_write_read_back_ok")
        else:
            if oc[0] != "ok":
                self.bump(self.counters, "read_of_unacknowledged_file_raised")
                return
            for tree in fm.alts:
                if match(oc[1], tree, rd) is None:
                    self.bump(self.counters, "read_of_unacknowledged_file_returned_old_or_inflight")
                    return
            tree = fm.alts[-1]
            self.violate(idx, "wrong_data_after_fault",
                         {"file": name, "got": [path_repr(p) for p in oc[1][0]][:6],
                          "alternatives": [[path_repr(e.path) for e, _ in t.flat()][:6] for t in fm.alts]},
                         tree.writer, tree.shape(), rd, fault)

    # ---- common post-processing of a writer operation --------------------------------------------------
    def after_write(self, idx, op, status, fired, pre, tree, target, writer, shown=None):
        """pre: gens before; target: resolved absolute name when known in advance (else None)."""
        fs = self.fs
        post = fs.gens()
        changed = sorted(p for p in post if pre.get(p) != post[p])
        fault = ",".join(fired) if fired else "-"
        if status == "ok":
            name = target
            if name is None:
                if len(changed) == 1:
                    name = changed[0]
                elif not changed and shown is not None and shown in fs.files:
                    # nothing was (re)written, but the writer showed a file: that file must hold the data
                    name = shown
                    self.probe("display_reused_an_existing_file")
                elif not changed:
                    self.violate(idx, "ack_without_data", {"note": "writer returned normally, no file changed"},
                                 writer, tree.shape(), "-", fault)
                    return None
                else:
                    # several files changed and the name is not known in advance (timestamped write):
                    # the written file is the one that reads back as the new content
                    cands = [p for p in changed if p not in self.files or pre.get(p) is None]
                    name = (cands or changed)[-1]
            if name not in changed:
                # not a verdict by itself (skipping an identical re-write would be legal): the read-back
                # below decides whether the acknowledged content is really there
                self.probe("acknowledged_write_left_file_untouched")
            for other in changed:
                if other != name:
                    # another file changed too.  An untracked one (a temp file, say) is none of this
                    # property's business; a tracked one must still read back as what was written to it
                    if other in self.files and other in fs.files:
                        self.probe("write_touched_another_tracked_file")
                        self.verify_file(idx, other, writer=self.files[other].alts[-1].writer, fault=fault)
                    else:
                        self.probe("untracked_file_created_by_write")
            if name in self.files:
                self.probe("overwrite_of_existing_file")
                if self.files[name].alts[-1].writer != writer:
                    self.probe("same_name_written_by_two_writers")
                if self.files[name].status != "complete":
                    self.probe("torn_or_unacknowledged_file_overwritten")
            self.files[name] = FileModel([tree], "complete")
            self.encodings.pop(name, None)
            self.verify_file(idx, name, writer=writer, fault=fault)
            return name
        # the operation raised or crashed
        if not fired:
            self.violate(idx, "op_failed_without_fault", {"status": status, "op": op["op"]},
                         writer, tree.shape(), "-", "-")
        for p in changed:
            self.encodings.pop(p, None)
            old = self.files.get(p)
            alts = (list(old.alts) if old is not None else []) + [tree]
            self.files[p] = FileModel(alts, "unack")
            self.probe("file_left_unacknowledged_by_failed_write")
            self.verify_file(idx, p, writer=writer, fault=fault)
        return None

    # ---- the step function -------------------------------------------------------------------------------
    def step(self, idx, op):
        self.seq += 1
        entry = {"seq": self.seq, "op": op}
        dt = float(op.get("dt", 0.0))
        if dt == 0.0 and op["op"] in WRITE_OPS:
            self.bump(self.faults, "clock_stall")
        if dt < 0:
            self.bump(self.faults, "clock_back")
        self.fs.advance(dt)
        h = getattr(self, "op_" + op["op"], None)
        if h is None:
            raise HarnessError("unknown op %r" % (op["op"],))
        io0 = self.fs.io_seq
        self.last_op_events = self.last_op_writes = 0
        st = h(idx, op, entry)
        entry["status"] = st or "ok"
        entry["io_events"] = self.fs.io_seq - io0
        entry["op_events"], entry["op_writes"] = self.last_op_events, self.last_op_writes
        self.log.append(entry)
        self.bump(self.counters, "op:" + op["op"])
        self.note_state(op["op"])

    def note_state(self, opname):
        fstate = tuple(sorted((("c" if fm.status == "complete" else "u"), len(fm.alts), fm.alts[-1].shape(),
                               fm.alts[-1].writer) for fm in self.files.values()))
        dstate = tuple(sorted((d.origin, d.tree.shape(), d.dirty) for d in self.docs.values()))
        s = H(fstate, dstate)
        self.states.add(s)
        self.transitions.add(H(s, opname))

    def obtain_path(self, spec):
        """Returns (object handed to the library, by-value snapshot for the model).  spec['reuse']: the SAME
        Path object as in an earlier operation, after spec['edit'] moved one control point of one of its
        Line/Quadratic/Cubic segments in place."""
        key = spec.get("reuse")
        if key is None:
            obj = build_path(spec)
            return obj, obj
        obj = self.path_objs.get(key)
        if obj is None:
            obj = self.path_objs[key] = build_path(spec)
        else:
            self.probe("same_path_object_written_again")
            ed = spec.get("edit")
            if ed and len(obj) > 0:
                seg = obj[ed["seg"] % len(obj)]
                attr = ed["attr"]
                if not isinstance(seg, Arc) and hasattr(seg, attr):
                    z = cz(ed["z"])
                    old = getattr(seg, attr)
                    setattr(seg, attr, z)
                    if isinstance(seg, Line) and seg.start == seg.end:
                        setattr(seg, attr, old)          # never a zero-length line
                    else:
                        self.probe("segment_edited_in_place_between_two_writes")
        return obj, clone_by_value(obj)

    # ---- wsvg / disvg ---------------------------------------------------------------------------------------
    def _paths_arg(self, op):
        handed = [self.obtain_path(s)[0] for s in op["paths"]]
        # snapshots only now: one object may sit in the list twice, edited in between
        objs = [clone_by_value(h) if s.get("reuse") else h for s, h in zip(op["paths"], handed)]
        how = op.get("as", "path")
        args = []
        for s, o in zip(op["paths"], handed):
            if how == "segment" and len(o) == 1 and not s.get("reuse"):
                args.append(o[0])
            elif how == "dstring":
                args.append(o.d())
            else:
                args.append(o)
        return objs, args

    def _paths_arg_old(self, op):
        objs = [build_path(s) for s in op["paths"]]
        how = op.get("as", "path")
        args = []
        for s, o in zip(op["paths"], objs):
            if how == "segment" and len(o) == 1:
                args.append(o[0])
            elif how == "dstring":
                args.append(o.d())
            else:
                args.append(o)
        return objs, args

    def _wsvg_tree(self, op, objs, writer):
        attrs = op.get("attrs")
        tree = Tree(op.get("svg_attrs") or {}, writer)
        for i, (s, o) in enumerate(zip(op["paths"], objs)):
            a = None
            if attrs is not None:
                a = dict(attrs[i])
            tree.children.append(PNode(s["pid"], o, a))
        return tree

    def _do_disvg(self, idx, op, entry, fn, writer):
        fs = self.fs
        try:
            objs, args = self._paths_arg(op)
        except (AssertionError, ValueError, TypeError, IndexError):
            return "skipped:invalid-path-spec"      # e.g. an edited replay file with an arc from a point to itself
        tree = self._wsvg_tree(op, objs, writer)
        kw = {}
        if op.get("attrs") is not None:
            kw["attributes"] = [dict(a) for a in op["attrs"]]
            if op.get("share_attr_dict") and len(kw["attributes"]) > 1:
                # one dict OBJECT for every path whose attributes are equal (a caller's natural shortcut)
                first = {}
                for i, a in enumerate(kw["attributes"]):
                    key = json.dumps(a, sort_keys=True)
                    if key in first:
                        kw["attributes"][i] = first[key]
                        self.probe("same_attribute_dict_object_passed_for_two_paths")
                    else:
                        first[key] = a
        if op.get("svg_attrs") is not None:
            kw["svg_attributes"] = dict(op["svg_attrs"])
        for k in ("colors", "stroke_widths", "dimensions", "viewbox", "mindim", "margin_size", "baseunit"):
            if k in ("dimensions", "viewbox") and op.get("attrs") is None and "stroke_widths" not in op:
                continue      # outside the statement's quantifier and a TypeError on the pinned tree (DESIGN 8.2)
            if k in op:
                v = op[k]
                if k in ("dimensions", "viewbox") and isinstance(v, list):
                    v = tuple(v)
                kw[k] = v
        if "nodes" in op and "dimensions" not in kw and "viewbox" not in kw:
            # (nodes= together with dimensions=/viewbox= needs node_radii= on the pinned tree: same family
            #  of option combinations outside the statement as in DESIGN 8.2)
            kw["nodes"] = [cz(z) for z in op["nodes"]]
            tree.shapes = True
            self.probe("nodes_drawn_as_circles")
        fname = op.get("file")
        ts = op.get("timestamp")
        if ts is not None:
            kw["timestamp"] = ts
        if writer == "disvg":
            kw["openinbrowser"] = bool(op.get("openinbrowser", False))
        target = None
        will_stamp = ts if ts is not None else (fname is None and writer == "disvg")
        if fname is not None and not will_stamp:
            target = fs.resolve(fname)
        if fname is not None:
            import posixpath
            d = posixpath.dirname(fs.resolve(fname))
            depth = 0
            while d not in fs.dirs and d != ROOT:
                depth += 1
                d = posixpath.dirname(d)
            if depth >= 2:
                self.probe("write_into_two_or_more_missing_directory_levels")
        if will_stamp:
            self.probe("timestamped_write")
        pre = fs.gens()
        nb = len(fs.browser_calls)
        if op.get("pathlike") and fname is not None:
            self.probe("pathlib_file_name")
        if op.get("container") == "tuple":
            args = tuple(args)
        elif op.get("container") == "single" and len(args) == 1 and op.get("attrs") is None:
            args = args[0]
        status, val, fired = self.run(op, lambda: fn(args, filename=fn_arg(op, fname), **kw))
        shown = fs.resolve(fs.browser_calls[-1]) if len(fs.browser_calls) > nb else None
        name = self.after_write(idx, op, status, fired, pre, tree, target, writer, shown=shown)
        if will_stamp and status == "ok" and name is not None and pre.get(name) is not None:
            self.probe("two_timestamped_writes_collide_on_one_name")
        entry["wrote"] = name
        if len(fs.browser_calls) > nb:
            self.probe("browser_opened")
        return status

    def op_wsvg(self, idx, op, entry):
        return self._do_disvg(idx, op, entry, wsvg, "wsvg")

    def op_disvg(self, idx, op, entry):
        return self._do_disvg(idx, op, entry, disvg, "disvg")

    # ---- Document -------------------------------------------------------------------------------------------
    def op_doc_new(self, idx, op, entry):
        if op["doc"] in self.docs:
            return "skipped"
        status, val, fired = self.run(op, lambda: Document())
        if status != "ok":
            self.violate(idx, "op_failed_without_fault", {"status": status, "op": "Document()"}, "document", "empty")
            return status
        self.docs[op["doc"]] = DocModel(val, Tree({}, "document"), "created")
        return "ok"

    def op_doc_load(self, idx, op, entry):
        fs = self.fs
        name = fs.resolve(op["file"])
        if op["doc"] in self.docs or name not in self.files or name not in fs.files:
            return "skipped"
        fm = self.files[name]
        via = op.get("via", "path")

        def load():
            if via == "path":
                return Document(fn_arg(op, op["file"]))
            if via == "stream":
                with open(op["file"], "rb") as f:
                    return Document(f)
            data = fs.content(name)
            return Document.from_svg_string(data.decode(self.enc_of(name)))
        status, doc, fired = self.run(op, load)
        fault = ",".join(fired) if fired else "-"
        if status != "ok":
            if fm.status == "complete" and not fired:
                self.violate(idx, "read_failed", {"file": name, "status": status}, fm.alts[0].writer,
                             fm.alts[0].shape(), "document", "-")
            return status
        oc = self.run({"faults": []}, lambda: doc.paths())
        if oc[0] != "ok" and any(t.arc_under_transform() for t in fm.alts):
            # the file loaded; it is paths() that raised, on an Arc inside a transformed group (C10's subject)
            self.probe("arc_under_group_transform_not_judged")
            if fm.status != "complete":
                return "skipped"
            t = fm.alts[0].clone()
            t.writer = "document"
            self.docs[op["doc"]] = DocModel(doc, t, "loaded:" + fm.alts[0].writer)
            return "ok"
        if oc[0] != "ok":
            self.violate(idx, "read_failed", {"file": name, "status": oc[0]}, fm.alts[-1].writer,
                         fm.alts[-1].shape(), "document", fault)
            return oc[0]
        ps = [q for q in oc[1] if is_path_elem(q.element) and "d" in q.element.attrib
              and "transform" not in q.element.attrib]
        res = (ps, [dict(q.element.attrib) for q in ps], dict(doc.root.attrib))
        chosen = None
        for tree in fm.alts:
            if match(res, tree, "document") is None:
                chosen = tree
                break
        if chosen is None:
            if fm.status == "complete":
                m = match(res, fm.alts[0], "document")
                self.violate(idx, m[0], dict(m[1], file=name), fm.alts[0].writer, fm.alts[0].shape(), "document", fault)
            else:
                self.violate(idx, "wrong_data_after_fault", {"file": name}, fm.alts[-1].writer, fm.alts[-1].shape(),
                             "document", fault)
            chosen = fm.alts[-1]
        t = chosen.clone()
        t.writer = "document"
        self.docs[op["doc"]] = DocModel(doc, t, "loaded:" + chosen.writer)
        self.probe("document_loaded_from_" + chosen.writer)
        return "ok"

    def _names_arg(self, op, names):
        """Either a fresh list, or a list object shared with an earlier call (op['names_ref'])."""
        ref = op.get("names_ref")
        if ref is None:
            return list(names)
        key = (op["doc"], ref)
        if key in self.named_lists:
            self.probe("same_names_list_object_passed_to_two_calls")
            return self.named_lists[key]
        lst = self.named_lists[key] = list(names)
        return lst

    def _model_get_or_add_group(self, dm, names):
        cur = dm.tree
        for nm in names:
            nxt = None
            for c in cur.children:
                if isinstance(c, GNode) and c.name == nm:
                    nxt = c
                    break
            if nxt is None:
                nxt = GNode(nm, {"id": nm})
                cur.children.append(nxt)
            cur = nxt
        return cur

    def op_doc_add_path(self, idx, op, entry):
        if op["doc"] not in self.docs:
            return "skipped"
        dm = self.docs[op["doc"]]
        spec = op["path"]
        try:
            handed, obj = self.obtain_path(spec)
        except (AssertionError, ValueError, TypeError, IndexError):
            return "skipped:invalid-path-spec"
        how = op.get("as", "path")
        arg = handed
        if how == "segment" and len(handed) == 1 and not spec.get("reuse"):
            arg = handed[0]
        elif how == "dstring":
            arg = handed.d()
        attrs = op.get("attrs")
        g = op.get("group")
        names = None
        if g is None:
            garg = None
        elif isinstance(g, dict) and "str" in g:
            # the group given as ONE plain string: whatever the library makes of it (today: one nested
            # group per character), add_path and paths_from_group must agree; the model keeps it opaque
            names = ["str:" + g["str"]]
            garg = g["str"]
            self.probe("group_given_as_plain_string")
        elif isinstance(g, dict):
            names = list(g["elem"])
            garg = dm.elems.get(tuple(names))
            if garg is None:
                return "skipped"
            self.probe("add_path_into_element_handle")
        else:
            names = list(g)
            garg = self._names_arg(op, names)
        status, val, fired = self.run(op, lambda: dm.obj.add_path(arg, None if attrs is None else dict(attrs), garg))
        if status != "ok":
            self.violate(idx, "op_failed_without_fault", {"status": status, "op": "add_path", "group": g},
                         "document", dm.tree.shape(), "document-live")
            return status
        parent = dm.tree if names is None else self._model_get_or_add_group(dm, names)
        node = PNode(spec["pid"], obj, None if attrs is None else dict(attrs))
        parent.children.append(node)
        dm.path_elems[spec["pid"]] = (val, node)
        dm.dirty = True
        self.check_doc(idx, op, dm)
        return "ok"

    def op_doc_elem_set(self, idx, op, entry):
        """add_path returns the new Element; the caller sets one more attribute on it"""
        if op["doc"] not in self.docs:
            return "skipped"
        dm = self.docs[op["doc"]]
        if not dm.path_elems:
            return "skipped"
        keys = sorted(dm.path_elems)
        el, node = dm.path_elems[keys[op.get("i", 0) % len(keys)]]
        if el is None or not hasattr(el, "set"):
            self.violate(idx, "op_failed_without_fault", {"op": "add_path", "note": "did not return the new element"},
                         "document", dm.tree.shape(), "document-live")
            return "ok"
        el.set(op["key"], op["value"])
        if node.attrs is None:
            node.attrs = {}
        node.attrs[op["key"]] = op["value"]
        dm.dirty = True
        self.probe("attribute_set_through_returned_element")
        self.check_doc(idx, op, dm)
        return "ok"

    def op_doc_group_set(self, idx, op, entry):
        """add_group / get_or_add_group return the group's Element; the caller gives it another transform
        (after the document has been queried: whatever a query remembered must not outlive the edit)"""
        if op["doc"] not in self.docs:
            return "skipped"
        dm = self.docs[op["doc"]]
        names = list(op["names"])
        el = dm.elems.get(tuple(names))
        gnode = dm.tree.find_group(names)
        if el is None or gnode is None or gnode is dm.tree or not hasattr(el, "set"):
            return "skipped"
        el.set("transform", op["transform"])
        gnode.attrs["transform"] = op["transform"]
        dm.dirty = True
        self.probe("group_transform_changed_through_returned_element")
        self.check_doc(idx, op, dm)
        return "ok"

    def op_doc_text(self, idx, op, entry):
        """repr(doc) / doc.pretty() as a writer whose text goes straight to svgstr2paths / from_svg_string"""
        if op["doc"] not in self.docs:
            return "skipped"
        dm = self.docs[op["doc"]]
        st, text, _ = self.run({"faults": []}, lambda: (dm.obj.pretty() if op.get("pretty") else repr(dm.obj)))
        if st != "ok" or not isinstance(text, str):
            self.violate(idx, "op_failed_without_fault", {"op": "Document.pretty/repr", "status": st}, "document",
                         dm.tree.shape(), "-")
            return st

        def read():
            if op.get("reader") == "document_string":
                d2 = Document.from_svg_string(text)
                ps = [q for q in d2.paths() if is_path_elem(q.element) and "d" in q.element.attrib
                      and "transform" not in q.element.attrib]
                return (ps, [dict(q.element.attrib) for q in ps], dict(d2.root.attrib))
            p, a, s = svgstr2paths(text, return_svg_attributes=True)
            keep = [i for i, x in enumerate(a) if "d" in x and "transform" not in x] if len(p) == len(a) else range(len(p))
            return ([p[i] for i in keep], [a[i] for i in keep] if len(p) == len(a) else a, s)
        st, res, _ = self.run({"faults": []}, read)
        rd = op.get("reader", "svgstr2paths")
        if st != "ok" and rd.startswith("document") and dm.tree.arc_under_transform():
            self.probe("arc_under_group_transform_not_judged")
            return "ok"
        if st != "ok":
            if not (dm.tree.dless and rd == "svgstr2paths" and st == "raised:KeyError"):
                self.violate(idx, "read_failed", {"op": "text of the document", "status": st}, "document:text",
                             dm.tree.shape(), rd)
            return st
        import re
        nsmap = {m.group(1): m.group(2) for m in re.finditer(r'xmlns:([A-Za-z_][\w.-]*)="([^"]*)"', text)}
        m = match(tuple(res) + (nsmap,), dm.tree, rd)
        self.probe("document_text_read_back")
        if m is not None:
            self.violate(idx, m[0], m[1], "document:text", dm.tree.shape(), rd)
        return "ok"

    def op_doc_add_group(self, idx, op, entry):
        if op["doc"] not in self.docs:
            return "skipped"
        dm = self.docs[op["doc"]]
        pnames = op.get("parent")
        parg = None
        pnode = dm.tree
        if pnames:
            parg = dm.elems.get(tuple(pnames))
            pnode = dm.tree.find_group(pnames)
            if parg is None or pnode is None:
                return "skipped"
        attrs = dict(op["attrs"])
        status, val, fired = self.run(op, lambda: dm.obj.add_group(dict(attrs), parg))
        if status != "ok":
            self.violate(idx, "op_failed_without_fault", {"status": status, "op": "add_group"}, "document",
                         dm.tree.shape(), "document-live")
            return status
        g = GNode(attrs.get("id"), attrs)
        pnode.children.append(g)
        dm.elems[tuple(list(pnames or []) + [attrs.get("id")])] = val
        dm.dirty = True
        self.check_doc(idx, op, dm)
        return "ok"

    def op_doc_get_or_add_group(self, idx, op, entry):
        if op["doc"] not in self.docs:
            return "skipped"
        dm = self.docs[op["doc"]]
        names = list(op["names"])
        arg = self._names_arg(op, names)
        status, val, fired = self.run(op, lambda: dm.obj.get_or_add_group(arg))
        if status != "ok":
            self.violate(idx, "op_failed_without_fault", {"status": status, "op": "get_or_add_group"}, "document",
                         dm.tree.shape(), "document-live")
            return status
        self._model_get_or_add_group(dm, names)
        dm.elems[tuple(names)] = val
        dm.dirty = True
        self.check_doc(idx, op, dm)
        return "ok"

    def op_doc_set_root_attr(self, idx, op, entry):
        """svg-level attributes of a Document are supplied through its (documented) ElementTree root"""
        if op["doc"] not in self.docs:
            return "skipped"
        dm = self.docs[op["doc"]]
        dm.obj.root.set(op["key"], op["value"])
        dm.tree.svg_attrs[op["key"]] = op["value"]
        dm.dirty = True
        self.check_doc(idx, op, dm)
        return "ok"

    @staticmethod
    def _filters(op):
        """non-default but all-accepting filters: results must be what they are without them"""
        kw = {}

        def is_container(el):
            t = el.tag if isinstance(el.tag, str) else ""
            return t.rsplit("}", 1)[-1] in ("g", "svg")
        if op.get("pfilter"):
            kw["path_filter"] = lambda el: not is_container(el)     # every path/shape element, no container
        if op.get("gfilter"):
            kw["group_filter"] = is_container                        # every container, nothing else
        return kw

    def check_doc(self, idx, op, dm):
        """Visibility: the Document's own queries see what was added, at its place."""
        fkw = self._filters(op)
        if fkw:
            self.probe("query_with_explicit_filters")
        st, ps, _ = self.run({"faults": []}, lambda: dm.obj.paths(**fkw))
        if st != "ok" and dm.tree.arc_under_transform():
            self.probe("arc_under_group_transform_not_judged")
            return
        if dm.tree.has_transforms():
            self.probe("document_query_with_group_transforms")
        if st != "ok":
            self.violate(idx, "read_failed", {"status": st, "op": "Document.paths()"}, "document", dm.tree.shape(),
                         "document-live")
            return
        ps = [q for q in ps if is_path_elem(q.element) and "d" in q.element.attrib
              and "transform" not in q.element.attrib]
        res = (ps, [dict(q.element.attrib) for q in ps], dict(dm.obj.root.attrib))
        m = match(res, dm.tree, "document-live")
        self.bump(self.counters, "document_live_query_checked")
        if m is not None:
            self.violate(idx, m[0], m[1], "document:" + dm.origin.split(":")[0], dm.tree.shape(), "document-live")

    def op_doc_mutate_result(self, idx, op, entry):
        """The caller edits (appends to / deletes from) a Path object returned by Document.paths(): that is
        the caller's object; the document's elements are untouched, so every later query must still return
        what was added."""
        if op["doc"] not in self.docs:
            return "skipped"
        dm = self.docs[op["doc"]]
        st, ps, _ = self.run({"faults": []}, lambda: dm.obj.paths())
        if st != "ok" or not ps:
            return "skipped"
        p = ps[op.get("i", 0) % len(ps)]
        try:
            if op.get("how") == "del" and len(p) > 0:
                del p[0]
            else:
                p.append(Line(cz(op.get("z", [1.0, 2.0])), cz(op.get("z2", [3.0, 4.0]))))
        except Exception:
            return "skipped"
        self.probe("query_result_edited_by_the_caller")
        self.check_doc(idx, op, dm)
        return "ok"

    def op_doc_paths(self, idx, op, entry):
        if op["doc"] not in self.docs:
            return "skipped"
        self.check_doc(idx, op, self.docs[op["doc"]])
        return "ok"

    def op_doc_paths_from_group(self, idx, op, entry):
        if op["doc"] not in self.docs:
            return "skipped"
        dm = self.docs[op["doc"]]
        if isinstance(op["names"], dict):
            names = ["str:" + op["names"]["str"]]
            gnode = dm.tree.find_group(names)
            arg = op["names"]["str"]
        else:
            names = list(op["names"])
            gnode = dm.tree.find_group(names)
            arg = self._names_arg(op, names)
        recursive = bool(op.get("recursive", True))
        fkw = self._filters(op)
        if fkw:
            self.probe("query_with_explicit_filters")
        st, ps, _ = self.run({"faults": []}, lambda: dm.obj.paths_from_group(arg, recursive=recursive, **fkw))
        if st != "ok" and dm.tree.arc_under_transform():
            self.probe("arc_under_group_transform_not_judged")
            return "ok"
        if st != "ok":
            self.violate(idx, "read_failed", {"status": st, "op": "paths_from_group"}, "document", dm.tree.shape(),
                         "document-live-group")
            return st
        sub = Tree({}, "document")
        if gnode is not None and gnode is not dm.tree:
            # paths_from_group flattens into the ROOT frame: the group's own and its ancestors' transforms
            cur, m = dm.tree, IDENT
            for nm in names:
                cur = next(c for c in cur.children if isinstance(c, GNode) and c.name == nm)
                if cur.attrs.get("transform") is not None:
                    m = mat_mul(m, GROUP_TRANSFORMS[cur.attrs["transform"]])
            sub.base_tf = m
            sub.children = gnode.children
        elif gnode is dm.tree:
            sub.children = dm.tree.children
        if not recursive:
            sub.children = [c for c in sub.children if isinstance(c, PNode)]
            self.probe("paths_from_group_not_recursive")
        ps = [q for q in ps if is_path_elem(q.element) and "d" in q.element.attrib
              and "transform" not in q.element.attrib]
        res = (ps, [dict(q.element.attrib) for q in ps], None)
        m = match(res, sub, "document-live-group")
        if m is not None:
            self.violate(idx, m[0], dict(m[1], group=names), "document:" + dm.origin.split(":")[0], dm.tree.shape(),
                         "document-live-group")
        return "ok"

    def op_doc_save(self, idx, op, entry):
        if op["doc"] not in self.docs:
            return "skipped"
        dm = self.docs[op["doc"]]
        fs = self.fs
        target = fs.resolve(op["file"])
        import posixpath
        if posixpath.dirname(target) not in fs.dirs:
            return "skipped"      # Document.save does not create directories (and does not promise to)
        tree = dm.tree.clone()
        tree.writer = "document:" + dm.origin.split(":")[0]
        pre = fs.gens()
        kw = dict(op.get("pretty_kw") or {}) if op.get("prettify") else {}
        status, val, fired = self.run(op, lambda: dm.obj.save(fn_arg(op, op["file"]), prettify=bool(op.get("prettify")), **kw))
        self.after_write(idx, op, status, fired, pre, tree, target, tree.writer)
        if status == "ok" and op["doc"] in self.docs:
            dm.dirty = False
        return status

    def op_doc_display(self, idx, op, entry):
        if op["doc"] not in self.docs:
            return "skipped"
        dm = self.docs[op["doc"]]
        fs = self.fs
        fname = op.get("file")
        target = fs.resolve(fname) if fname is not None else None
        import posixpath
        if target is not None and posixpath.dirname(target) not in fs.dirs:
            return "skipped"
        tree = dm.tree.clone()
        tree.writer = "document:" + dm.origin.split(":")[0]
        pre = fs.gens()
        nb = len(fs.browser_calls)
        status, val, fired = self.run(op, lambda: dm.obj.display(fname))
        shown = fs.resolve(fs.browser_calls[-1]) if len(fs.browser_calls) > nb else None
        self.after_write(idx, op, status, fired, pre, tree, target, tree.writer, shown=shown)
        return status

    # ---- SaxDocument as a writer ------------------------------------------------------------------------------
    def op_sax_resave(self, idx, op, entry):
        fs = self.fs
        src, dst = fs.resolve(op["src"]), fs.resolve(op["dst"])
        import posixpath
        if src not in self.files or src not in fs.files or posixpath.dirname(dst) not in fs.dirs:
            return "skipped"
        fm = self.files[src]
        if fm.status != "complete":
            return "skipped"
        base = fm.alts[0]
        if base.shapes:
            return "skipped"      # SaxDocument.save turns every shape into a path element: not modelled
        if base.has_transforms():
            self.probe("sax_resave_of_transformed_groups_not_modelled")
            return "skipped"      # ... and writes the matrix it computed onto each path element
        tree = Tree({k: v for k, v in base.svg_attrs.items() if k in ("width", "height", "viewBox")}, "sax")
        for e, key in base.flat():
            keep = None
            if e.attrs is not None:
                keep = {k: v for k, v in sax_effective(e.attrs).items() if k in ("fill", "stroke")}
            tree.children.append(PNode(e.pid, e.path, keep))
        pre = fs.gens()
        status, val, fired = self.run(op, lambda: SaxDocument(op["src"]).save(fn_arg(op, op["dst"])))
        self.after_write(idx, op, status, fired, pre, tree, dst, "sax")
        return status

    # ---- a file that was NOT written by this library (histories that start with "load") ---------------------------
    def op_foreign_file(self, idx, op, entry):
        """The harness itself puts an SVG file on SimFS (no I/O events): default namespace, optional XML
        declaration with an encoding, BOM, CRLF line ends, comments, a processing instruction, a DOCTYPE,
        a <desc> with CDATA, one level of groups.  It is then an acknowledged file like any other."""
        fs = self.fs
        name = fs.resolve(op["file"])
        import posixpath
        from xml.sax.saxutils import quoteattr
        if posixpath.dirname(name) not in fs.dirs:
            return "skipped"
        enc = op.get("encoding", "utf-8")
        tree = Tree(op.get("svg_attrs") or {}, "foreign")
        lines = []
        if op.get("decl", True):
            lines.append('<?xml version="1.0" encoding="%s"?>' % enc)
        if op.get("comment"):
            lines.append("<!-- made by hand: <path d='M0,0'/> is not an element here -->")
        if op.get("pi"):
            lines.append('<?xml-stylesheet type="text/css" href="style.css"?>')
        if op.get("doctype"):
            lines.append('<!DOCTYPE svg PUBLIC "-//W3C//DTD SVG 1.1//EN" '
                         '"http://www.w3.org/Graphics/SVG/1.1/DTD/svg11.dtd">')
        root_attrs = "".join(" %s=%s" % (k, quoteattr(v)) for k, v in tree.svg_attrs.items())
        lines.append('<svg xmlns="http://www.w3.org/2000/svg" xmlns:xlink="http://www.w3.org/1999/xlink"%s>' % root_attrs)
        if op.get("cdata"):
            lines.append("  <desc><![CDATA[ a <path d='M 9,9 L 8,8'/> & more ]]></desc>")

        def emit(spec, indent, parent):
            try:
                obj = build_path(spec)
            except (AssertionError, ValueError, TypeError, IndexError):
                return
            a = spec.get("attrs")
            if a is not None:
                a = {k: attr_text(v) for k, v in a.items() if k != "d"}      # one d per element
            parent.children.append(PNode(spec["pid"], obj, None if a is None else dict(a)))
            attrs = "".join(" %s=%s" % (k, quoteattr(v)) for k, v in (a or {}).items())
            lines.append('%s<path d="%s"%s/>' % (indent, obj.d(), attrs))
            if op.get("comment"):
                lines.append("%s<!-- after p%d -->" % (indent, spec["pid"]))
        for item in op["items"]:
            if "shape" in item:
                lines.append("  " + SHAPES[item["shape"] % len(SHAPES)])
                tree.shapes = True
                tree.dless = tree.dless or item["shape"] % len(SHAPES) == DLESS
                self.probe("foreign_file_with_other_shapes")
            elif "group" in item:
                g = GNode(item["group"], {"id": item["group"]})
                tree.children.append(g)
                lines.append('  <g id=%s%s>' % (quoteattr(item["group"]),
                                                 (" style=%s" % quoteattr(item["gstyle"])) if item.get("gstyle") else ""))
                for spec in item["paths"]:
                    if "shape" in spec:
                        lines.append("    " + SHAPES[spec["shape"] % len(SHAPES)])
                        tree.shapes = True
                        tree.dless = tree.dless or spec["shape"] % len(SHAPES) == DLESS
                    else:
                        emit(spec, "    ", g)
                lines.append("  </g>")
            else:
                emit(item, "  ", tree)
        lines.append("</svg>")
        text = ("\r\n" if op.get("crlf") else "\n").join(lines) + "\n"
        try:
            data = text.encode(enc)
        except UnicodeEncodeError:
            return "skipped:not-encodable"
        if op.get("bom") and enc.lower() == "utf-8":
            data = b"\xef\xbb\xbf" + data
        from .simfs import Node
        node = fs.files.get(name)
        if node is None:
            node = fs.files[name] = Node()
        node.data = bytearray(data)
        node.gen += 1
        node.mtime = fs.now
        self.encodings[name] = enc
        self.files[name] = FileModel([tree], "complete")
        self.probe("foreign_file")
        for k in ("bom", "crlf", "comment", "pi", "doctype", "cdata"):
            if op.get(k):
                self.probe("foreign_file_with_" + k)
        if enc.lower() != "utf-8":
            self.probe("foreign_file_not_utf8")
        self.verify_file(idx, name, writer="foreign")
        return "ok"

    # ---- explicit reads (may carry faults) ---------------------------------------------------------------------
    def op_read(self, idx, op, entry):
        fs = self.fs
        name = fs.resolve(op["file"])
        if name not in self.files or name not in fs.files:
            return "skipped"
        fm = self.files[name]
        rd = op["reader"]
        status, val, fired = self.run(op, lambda: self.read_with(rd, fn_arg(op, op["file"])))
        fault = ",".join(fired) if fired else "-"
        if status == "crashed":
            return status
        if status != "ok":
            if fired:       # e.g. an interrupt delivered inside the reader
                self.bump(self.counters, "read_under_fault_raised")
                return "raised"
            raise HarnessError("reader adapter raised %s" % status)
        oc = val
        if fired and oc[0] != "ok":
            self.bump(self.counters, "read_under_fault_raised")
            return "raised"
        if fired:
            self.bump(self.counters, "read_under_fault_returned")
        self.judge_read(idx, name, fm, rd, oc, fm.alts[-1].writer, fault)
        return "ok"

    def op_chdir(self, idx, op, entry):
        """the process changes its working directory: relative names now mean other files"""
        d = self.fs.resolve(op["dir"])
        if d not in self.fs.dirs:
            return "skipped"
        self.fs.cwd = d
        self.probe("working_directory_changed")
        return "ok"

    def op_restart(self, idx, op, entry):
        if any(d.dirty for d in self.docs.values()):
            self.probe("crash_or_restart_with_dirty_document")
        self.docs.clear()
        self.named_lists.clear()
        self.path_objs.clear()
        self.sax_obj = None
        gc.collect()
        if self.fs.handles:
            self.probe("handle_left_open_at_restart")
            self.fs.kill_handles()
        self.probe("restart")
        return "ok"

    # ---- end of run -----------------------------------------------------------------------------------------------
    def finish(self):
        # every complete file must still read back at the end of the history (nothing later damaged it)
        idx = len(self.log) - 1 if self.log else 0
        for name in sorted(self.files):
            if self.files[name].status == "complete" and name in self.fs.files:
                self.verify_file(idx, name, readers=self.readers[:2], writer=self.files[name].alts[0].writer)
        cfgc = "faulting" if self.config.get("faulting") else "fault_free"
        stats = {
            "steps": len(self.log),
            "faults": dict(self.faults),
            "probes": dict(self.probes),
            "counters": dict(self.counters),
            "states": sorted(self.states),
            "transitions": sorted(self.transitions),
            "nontrivial": bool(self.nontrivial),
            "config_class": cfgc,
            "sim_time": self.fs.sim_elapsed,
            "io_events": self.fs.io_seq,
        }
        slog = [{"seq": e["seq"], "op": e["op"], "status": e["status"], "io": e["io_events"],
                 "wrote": e.get("wrote"), "op_events": e.get("op_events", 0), "op_writes": e.get("op_writes", 0)}
                for e in self.log]
        fsdig = sorted((p, H(bytes(n.data))) for p, n in self.fs.files.items())
        return {"digest": digest_of([slog, fsdig, sorted(self.fs.dirs)]), "violations": self.violations,
                "stats": stats, "log": slog}


def replay(hist, keep_log=False):
    w = World(hist["config"])
    try:
        for i, op in enumerate(hist["ops"]):
            w.step(i, op)
        res = w.finish()
    finally:
        w.close()
    if not keep_log:
        res.pop("log", None)
    return res


# ----------------------------------------------------------------------------------------------
# seeded generator (online: looks at the world to stay on meaningful operations)
# ----------------------------------------------------------------------------------------------

FILE_POOL = ["a.svg", "b.svg", "out/c.svg", "out/deep/er/d.svg", ROOT + "/tmp/e.svg", "pic.SVG", "noext",
             "sub dir/f g.svg", "out/c.xml", "50%#1.svg", "\u00fcn\u00ef/\u00e7 \u2603.svg", "./out/../h.svg"]
GROUP_POOL = [["g1"], ["g1", "g2"], ["g3"], ["g1", "g4"], ["g3", "g5", "g6"], ["g10"], ["g1", "g22"], ["g"]]
VAL_SIMPLE = ["red", "#00ff00", "none", "1.5", "blue", "0.25", "a b", "x1", "007", "1e3", "1.50", "TRUE"]
VAL_NASTY = ["x&y", "<tag>", 'say "hi"', "it's", "ünïcödé ☃", "a  b", " lead", "trail ", "&amp;",
             "]]>", "100%", "url(#g)", "\U0001F600"]
STYLE_VALS = ["fill:none;stroke:red", "stroke:#000", "fill:none;stroke-width:2", "fill:none;", "opacity:0.5; fill:blue"]
KEYS = ["stroke", "fill", "stroke-width", "class", "data-k", "opacity", "style", "stroke-linecap"]


class Gen:
    def __init__(self, run_seed, tier):
        self.st = Streams(run_seed)
        c = self.st["config"]
        self.faulting = c.random() < 0.5
        self.bufsize = c.choice([16, 64, 512, 8192, 8192])
        self.chunk = c.choice([8, 64, 8192, 8192])
        k = c.randint(3, 5)
        self.readers = sorted(c.sample(READERS, k), key=READERS.index)
        self.family = c.choice(["int", "half", "generic", "generic", "tiny", "huge", "mixed", "exp"])
        self.kind_w = [c.choice([0, 1, 2, 3]) for _ in range(4)]
        if sum(self.kind_w) == 0:
            self.kind_w = [1, 1, 1, 1]
        self.attr_mode = c.choice(["none", "simple", "simple", "nasty", "nasty"])
        self.files = c.sample(FILE_POOL, c.randint(2, 5))
        self.w_ops = {
            "wsvg": c.choice([0, 2, 3, 4]), "disvg": c.choice([0, 1, 2]),
            "doc_new": c.choice([0, 1, 2]), "doc_load": c.choice([0, 1, 2]),
            "doc_add_path": c.choice([2, 3, 5]), "doc_add_group": c.choice([0, 1, 2]),
            "doc_get_or_add_group": c.choice([0, 1]), "doc_save": c.choice([1, 2, 3]),
            "doc_display": c.choice([0, 0, 1]), "doc_paths": c.choice([0, 1]),
            "doc_paths_from_group": c.choice([0, 1]), "sax_resave": c.choice([0, 0, 1]),
            "doc_set_root_attr": c.choice([0, 1]), "foreign_file": c.choice([0, 0, 1, 2]),
            "doc_mutate_result": c.choice([0, 0, 1]), "doc_elem_set": c.choice([0, 1]), "doc_text": c.choice([0, 1]),
            "read": c.choice([0, 1, 2]), "restart": c.choice([0, 0, 1]), "chdir": c.choice([0, 0, 0, 1]),
        }
        if self.w_ops["wsvg"] + self.w_ops["disvg"] + self.w_ops["doc_new"] == 0:
            self.w_ops["wsvg"] = 2
        n = 4
        while n < 20 and c.random() < 0.85:
            n += 1
        self.nops = n
        self.dts = [c.choice([0.0, 0.001, 1.0]), 1.0, 3600.0, c.choice([0.0, -5.0, 0.25])]
        self.t0 = 1.7e9 + c.randint(0, 10 ** 6) + c.choice([0.0, 0.5, 0.123456])
        self.short_step = c.choice([1, 3, 7, 100])
        self.next_pid = 1
        self.reusable = []
        self.queue = []
        self.last_wsvg = None
        self.recent = []
        self.next_doc = 0
        self.nfaults = 0
        self.maxfaults = c.randint(1, 3)
        self.reuse_names = c.random() < 0.35
        self.pathlike = c.random() < 0.3
        self.group_transforms = c.random() < 0.3     # add_group(group_attribs={'transform': ...})
        self.w_ops["doc_group_set"] = c.choice([1, 2]) if self.group_transforms else 0
        if self.group_transforms:
            # such a run is ABOUT groups: documents get made, groups get added (mostly nested, mostly with a
            # transform) and paths go into them - otherwise one run in thirty sees a transformed group at all
            self.w_ops["doc_new"] = max(1, self.w_ops["doc_new"])
            self.w_ops["doc_add_group"] = 3
            self.w_ops["doc_paths_from_group"] = max(1, self.w_ops["doc_paths_from_group"])

    def config(self):
        return {"faulting": self.faulting, "bufsize": self.bufsize, "chunk": self.chunk, "readers": self.readers,
                "t0": self.t0, "short_step": self.short_step, "family": self.family, "attr_mode": self.attr_mode}

    # ---- inputs ----------------------------------------------------------------------------------------------
    def coord(self, r):
        f = self.family
        if f == "mixed":
            f = r.choice(["int", "half", "generic", "tiny", "huge", "exp"])
        if f == "exp":
            # values whose repr uses exponent notation, negative zero, 17-digit mantissas, integers
            # (|x| <= ~1e31: disvg's own canvas arithmetic overflows near the top of the double range)
            return r.choice([1e22, -1e22, 2.5e+30, 1e-22, -3.75e-15, -0.0, 1e16, 123456789012345680.0,
                             0.1 + 0.2, 1 / 3.0, 7.0, -7.0]) * r.choice([1, 1, 3, -1])
        if f == "int":
            return float(r.randint(-20, 20))
        if f == "half":
            return r.randint(-40, 40) / 2.0
        if f == "tiny":
            return r.uniform(-1, 1) * 1e-7
        if f == "huge":
            return r.uniform(-1, 1) * 1e9
        return r.uniform(-100, 100)

    def pt(self, r):
        return [self.coord(r), self.coord(r)]

    def seg(self, r, start):
        k = r.choices(["L", "Q", "C", "A"], weights=self.kind_w)[0]
        a = start if start is not None else self.pt(r)

        def other():
            for _ in range(20):
                b = self.pt(r)
                if b != a:
                    return b
            return [a[0] + 1.0, a[1]]
        if k == "L":
            return ["L", a, other()]
        if k == "Q":
            return ["Q", a, self.pt(r), self.pt(r)]
        if k == "C":
            return ["C", a, self.pt(r), self.pt(r), self.pt(r)]
        b = other()
        chord = abs(cz(a) - cz(b))
        if r.random() < 0.8:
            rx = chord * r.choice([0.5, 0.75, 1.0, 2.5])
            ry = chord * r.choice([0.5, 0.75, 1.0, 2.5])
        else:
            rx, ry = chord * 0.1, chord * 0.3     # too small: the constructor enlarges it
        if rx == 0 or ry == 0:
            rx = ry = 1.0
        return ["A", a, [rx, ry], float(r.choice([0, 0, 30, -45, 90, 12.5])), r.random() < 0.5,
                r.random() < 0.5, b]

    def pathspec(self, r):
        n = r.choice([1, 1, 2, 3, 4, 6])
        segs = []
        end = None
        for _ in range(n):
            start = end if (end is not None and r.random() < 0.75) else None
            if start is None and end is not None and r.random() < 0.3:
                # a new subpath that starts a hair away from where the last one ended
                k = r.choice([1e-7, 1e-6, 1e-10])
                start = [end[0] + (abs(end[0]) * k or k), end[1]]
            s = self.seg(r, start)
            segs.append(s)
            end = s[-1]
        pid = self.next_pid
        self.next_pid += 1
        if self.recent and r.random() < 0.12:
            segs = copy.deepcopy(r.choice(self.recent))      # the same geometry again (another pid)
        self.recent = (self.recent + [segs])[-6:]
        spec = {"pid": pid, "segs": segs}
        x = r.random()
        if x < 0.08:
            spec["np"] = True
        elif x < 0.2 and self.reusable:
            # the same Path object as in an earlier operation, one control point moved in place
            key, osegs = r.choice(self.reusable)
            spec = {"pid": pid, "segs": copy.deepcopy(osegs), "reuse": key}
            if r.random() < 0.85:
                i = r.randrange(len(osegs))
                kind = osegs[i][0]
                attr = r.choice({"L": ["start", "end"], "Q": ["start", "control", "end"],
                                 "C": ["start", "control1", "control2", "end"], "A": ["start"]}[kind])
                spec["edit"] = {"seg": i, "attr": attr, "z": self.pt(r)}
        elif x < 0.3:
            spec["reuse"] = "k%d" % pid
            self.reusable = (self.reusable + [(spec["reuse"], segs)])[-4:]
        return spec

    def attrs(self, r, pid, prefixed=False, numeric=False):
        if self.attr_mode == "none" and r.random() < 0.8:
            return None
        a = {"id": "p%d" % pid}
        if r.random() < 0.08:
            a["id"] = r.choice(["g1", "g2", "g3", "g10", "n1", "n2"])      # an id that is also a group name
        if prefixed and r.random() < 0.3:
            a[r.choice(["xlink:href", "xml:space", "xlink:title"])] = r.choice(["#p0", "preserve", "t 1"])
        for k in r.sample(KEYS, r.randint(0, 4)):
            if k == "style":
                a[k] = r.choice(STYLE_VALS)
            elif self.attr_mode == "nasty" and r.random() < 0.6:
                a[k] = r.choice(VAL_NASTY)
            else:
                a[k] = r.choice(VAL_SIMPLE)
        if numeric and r.random() < 0.3:
            a[r.choice(["stroke-width", "fill-opacity", "data-n", "opacity"])] = r.choice([0, 0.0, 2.5, 7, False, True, 1e-05])
        if r.random() < 0.08:
            a["d"] = r.choice(["M 0,0 L 9,9", "M 1,1 L 2,2 L 3,1 Z"])     # e.g. a dict that came from svg2paths
        if "style" in a and r.random() < 0.85:
            # usually no attribute that the style declaration also sets (CSS precedence would apply)
            for k in style_keys(a):
                a.pop(k.strip(), None)
        return a

    def svg_attrs(self, r):
        if r.random() < 0.6:
            return None
        a = {}
        if r.random() < 0.6:
            a["width"], a["height"] = r.choice(["100px", "12cm", "640"]), r.choice(["50px", "7cm", "480"])
        if r.random() < 0.5:
            a["viewBox"] = r.choice(["0 0 10 10", "-5 -5 100 50"])
        if r.random() < 0.5:
            a["data-x"] = r.choice(VAL_NASTY if self.attr_mode == "nasty" else VAL_SIMPLE)
        if r.random() < 0.3:
            a["id"] = "root%d" % r.randint(1, 9)
        if r.random() < 0.15:
            a["xml:space"] = "preserve"
        if r.random() < 0.15:
            a["style"] = r.choice(STYLE_VALS)
        return a or None

    def fault(self, r, opname, world):
        if not self.faulting or self.nfaults >= self.maxfaults or r.random() > 0.55:
            return None
        kinds = ["crash", "crash", "crash", "interrupt", "interrupt", "eio_write", "eio_write", "enospc_write",
                 "eagain_write", "eintr_write",
                 "short_write", "short_write", "eacces_open", "enoent_open", "emfile_open", "eio_close",
                 "eexist_mkdir"]
        if opname in ("disvg", "doc_display"):
            kinds += ["browser_error", "browser_error", "browser_error"]
        if opname in ("read", "doc_load", "sax_resave"):
            kinds += ["short_read", "short_read", "eio_read", "eio_read"]
        k = r.choice(kinds)
        f = {"kind": k}
        if k in ("crash", "interrupt"):
            f["n"] = r.choice([1, 2, 3, 4, 5, 6, 8, 10, 12, 15, 20, 30, 60])
        elif k in ("eio_write", "enospc_write", "short_write", "eagain_write", "eintr_write"):
            f["n"] = r.choice([1, 1, 2, 3, 5, 8, 20, 50])
            f["k"] = r.choice([0, 1, 7, self.bufsize // 2, self.bufsize])
        elif k in ("short_read", "eio_read"):
            f["n"] = r.choice([1, 1, 2, 3, 5])
            f["k"] = r.choice([1, 5, 16])
        else:
            f["n"] = r.choice([1, 1, 2])
        self.nfaults += 1
        return [f]

    # ---- next op ------------------------------------------------------------------------------------------------
    def next_op(self, w):
        r = self.st["ops"]
        a = self.st["args"]
        fr = self.st["faults"]
        while self.queue:
            op = self.queue.pop(0)
            if op.get("doc") is None or op["doc"] in w.docs:
                return op
        names = [k for k, v in self.w_ops.items() if v > 0]
        weights = [self.w_ops[k] for k in names]
        for _ in range(30):
            k = r.choices(names, weights=weights)[0]
            op = self.make(k, a, w)
            if op is not None:
                op["dt"] = op.pop("__dt") if "__dt" in op else a.choice(self.dts)
                if k == "wsvg" and not op.get("timestamp"):
                    self.last_wsvg = op
                if self.pathlike and k in ("wsvg", "disvg", "doc_save", "doc_load", "sax_resave", "read") \
                        and op.get("file", op.get("dst")) is not None and a.random() < 0.5:
                    op["pathlike"] = True
                if k in WRITE_OPS or k in ("read", "doc_load"):
                    f = self.fault(fr, k, w)
                    if f:
                        op["faults"] = f
                if k == "doc_display" and op.get("file") is None and len(w.docs) >= 2 and a.random() < 0.5:
                    # clock stalls between timestamped writes (DESIGN 2.4): another document is displayed in
                    # the same tick, then this one again
                    other = a.choice([d for d in sorted(w.docs) if d != op["doc"]])
                    self.queue.append({"op": "doc_display", "doc": other, "file": None, "dt": 0.0})
                    self.queue.append({"op": "doc_display", "doc": op["doc"], "file": None, "dt": 0.0})
                return op
        return self.make("wsvg", a, w) or {"op": "restart", "dt": 1.0}

    def existing_files(self, w, complete_only=False):
        out = []
        for f in self.files:
            p = w.fs.resolve(f)
            if p in w.files and p in w.fs.files and (not complete_only or w.files[p].status == "complete"):
                out.append(f)
        return out

    def make(self, k, a, w):
        if k == "wsvg" and self.last_wsvg is not None and a.random() < 0.12:
            # the same file again, within the same clock tick, with content of exactly the same size:
            # x and y of the first point of every path swapped (what a coarse mtime cannot tell apart)
            op = copy.deepcopy(self.last_wsvg)
            for p in op["paths"]:
                sg = p["segs"][0]
                sw = [sg[1][1], sg[1][0]]
                if sw != sg[-1]:            # never a zero-length line / an arc from a point to itself
                    sg[1] = sw
            op.pop("faults", None)
            op["__dt"] = 0.0
            return op
        if k in ("wsvg", "disvg"):
            n = a.choice([1, 1, 2, 3, 5])
            if a.random() < 0.02:
                n = a.randint(40, 120)        # a file of several tens of KiB (crosses every parser's read chunk)
            paths = [self.pathspec(a) for _ in range(n)]
            op = {"op": k, "paths": paths}
            at = [self.attrs(a, p["pid"], prefixed=True, numeric=True) for p in paths]
            if all(x is not None for x in at) and len(at) > 1 and a.random() < 0.12:
                at = [dict(at[0]) for _ in at]           # every path gets the same attributes ...
                op["share_attr_dict"] = True             # ... through one shared dict object
            if all(x is not None for x in at):
                op["attrs"] = at
            else:
                op["attrs"] = None
                x = a.random()
                if x < 0.25:
                    op["colors"] = "".join(a.choice("rgbk") for _ in paths)
                elif x < 0.4:
                    op["colors"] = [a.choice(["red", "#123456"]) for _ in paths]
                if a.random() < 0.25:
                    op["stroke_widths"] = [a.choice([0.5, 1.0, 2.0]) for _ in paths]
            sa = self.svg_attrs(a)
            if sa is not None:
                op["svg_attrs"] = sa
            if a.random() < 0.08:
                op["nodes"] = [self.pt(a) for _ in range(a.choice([1, 2, 3]))]   # drawn as circles
            # (dimensions= / viewbox= are not generated: they lie outside C18's quantifier, and on the
            #  pinned tree disvg(paths, dimensions=...) without stroke_widths raises TypeError)
            if a.random() < 0.15:
                op["mindim"] = a.choice([None, 100])
            elif op["attrs"] is not None and a.random() < 0.25:
                # with per-path attributes supplied these two work on the pinned tree too
                if a.random() < 0.5:
                    op["viewbox"] = a.choice(["0 0 100 100", [0, 0, 50, 50], "-1 -2 30 40"])
                else:
                    op["dimensions"] = a.choice([[100, 100], ["10cm", "5cm"]])
            # (d-strings are not handed to wsvg/disvg: without explicit dimensions the bounding-box step
            #  rejects them by design; Document.add_path documents d-string input and gets it)
            op["as"] = a.choice(["path", "path", "path", "segment"])
            if a.random() < 0.15:
                op["container"] = a.choice(["tuple", "single"])
            if k == "wsvg":
                op["file"] = a.choice(self.files)
                if a.random() < 0.2:
                    op["timestamp"] = True
            else:
                op["file"] = a.choice([None, None] + self.files)
                op["openinbrowser"] = a.random() < 0.6
                if op["file"] is not None and a.random() < 0.3:
                    op["timestamp"] = True
            return op
        if k == "foreign_file":
            items = []
            for _ in range(a.choice([1, 2, 3])):
                if a.random() < 0.35:
                    ps = []
                    for _ in range(a.choice([1, 2])):
                        sp = self.pathspec(a)
                        sp["attrs"] = self.attrs(a, sp["pid"])
                        ps.append(sp)
                    items.append({"group": a.choice(["g1", "g3", "layer 1"]), "paths": ps,
                                  "gstyle": a.choice([None, None, "fill:blue", "stroke:#000;fill:none"])})
                else:
                    sp = self.pathspec(a)
                    sp["attrs"] = self.attrs(a, sp["pid"])
                    items.append(sp)
                if a.random() < 0.3:
                    items.append({"shape": a.randrange(9)})
            for it in items:
                if "group" in it and a.random() < 0.3:
                    it["paths"].insert(a.randrange(len(it["paths"]) + 1), {"shape": a.randrange(9)})
            for it in items:          # hand-made files: plain Path objects only
                for sp in ([it] if "segs" in it else it.get("paths", [])):
                    sp.pop("reuse", None); sp.pop("edit", None); sp.pop("np", None)
            enc = a.choice(["utf-8", "utf-8", "utf-8", "iso-8859-1", "us-ascii"])
            op = {"op": k, "file": a.choice(self.files), "items": items, "encoding": enc,
                  "decl": a.random() < 0.8 or enc != "utf-8"}
            for flag, pr in (("bom", 0.2), ("crlf", 0.3), ("comment", 0.4), ("pi", 0.2), ("doctype", 0.25),
                             ("cdata", 0.3)):
                if a.random() < pr:
                    op[flag] = True
            sa = self.svg_attrs(a)
            if sa:
                sa.pop("xml:space", None)
                op["svg_attrs"] = sa
            import posixpath
            if posixpath.dirname(w.fs.resolve(op["file"])) not in w.fs.dirs:
                return None
            return op
        if k == "doc_new":
            if len(w.docs) >= 3:
                return None
            d = self.next_doc
            self.next_doc += 1
            return {"op": "doc_new", "doc": d}
        if k == "doc_load":
            fs = self.existing_files(w)
            if not fs or len(w.docs) >= 3:
                return None
            d = self.next_doc
            self.next_doc += 1
            return {"op": "doc_load", "doc": d, "file": a.choice(fs), "via": a.choice(["path", "path", "stream", "string"])}
        if not k.startswith("doc_"):
            if k == "sax_resave":
                fs = self.existing_files(w, complete_only=True)
                if not fs:
                    return None
                return {"op": k, "src": a.choice(fs), "dst": a.choice(self.files)}
            if k == "read":
                fs = self.existing_files(w)
                if not fs:
                    return None
                return {"op": k, "file": a.choice(fs), "reader": a.choice(READERS)}
            if k == "restart":
                return {"op": k}
            if k == "chdir":
                return {"op": k, "dir": a.choice([ROOT + "/cwd", ROOT + "/cwd/out", ROOT + "/tmp", ROOT + "/cwd/sub dir"])}
            return None
        if not w.docs:
            return None
        d = a.choice(sorted(w.docs))
        dm = w.docs[d]
        if k == "doc_add_path":
            p = self.pathspec(a)
            op = {"op": k, "doc": d, "path": p, "attrs": self.attrs(a, p["pid"]),
                  "as": a.choice(["path", "path", "segment", "dstring"])}
            x = a.random()
            if self.group_transforms and dm.elems and x < 0.6:
                op["group"] = {"elem": list(a.choice(sorted(dm.elems)))}
            elif x < 0.45:
                op["group"] = None
            elif x < 0.55:
                op["group"] = {"str": a.choice(["sgrp1", "sgrp2", "layer"])}
            elif x < 0.85 or not dm.elems:
                op["group"] = a.choice(GROUP_POOL)
                if self.reuse_names and a.random() < 0.6:
                    op["names_ref"] = "L%d" % GROUP_POOL.index(op["group"])
            else:
                op["group"] = {"elem": list(a.choice(sorted(dm.elems)))}
            return op
        if k == "doc_add_group":
            parent = None
            if dm.elems and a.random() < (0.7 if self.group_transforms else 0.5):
                parent = list(a.choice(sorted(dm.elems)))
            nm = "n%d" % a.randint(1, 6)
            if dm.tree.find_group((parent or []) + [nm]) is not None:
                return None
            at = {"id": nm}
            if a.random() < 0.4:
                at["class"] = a.choice(VAL_SIMPLE)
            if a.random() < 0.3:
                at["style"] = a.choice(STYLE_VALS)       # a container's style must not leak into its paths
            if a.random() < 0.2:
                at["fill"] = a.choice(VAL_SIMPLE)
            if self.group_transforms and a.random() < 0.8:
                at["transform"] = a.choice(sorted(GROUP_TRANSFORMS))
            return {"op": k, "doc": d, "attrs": at, "parent": parent}
        if k == "doc_get_or_add_group":
            op = {"op": k, "doc": d, "names": a.choice(GROUP_POOL)}
            if self.reuse_names and a.random() < 0.5:
                op["names_ref"] = "L%d" % GROUP_POOL.index(op["names"])
            return op
        if k == "doc_set_root_attr":
            key = a.choice(["width", "height", "viewBox", "data-x", "id", "style"])
            val = {"width": "100px", "height": "50px", "viewBox": "0 0 10 10", "id": "root7",
                   "style": "fill:blue;stroke:none"}.get(
                key, a.choice(VAL_NASTY if self.attr_mode == "nasty" else VAL_SIMPLE))
            return {"op": k, "doc": d, "key": key, "value": val}
        if k == "doc_save":
            op = {"op": k, "doc": d, "file": a.choice(self.files), "prettify": a.random() < 0.4}
            if op["prettify"] and a.random() < 0.3:
                op["pretty_kw"] = a.choice([{"indent": "  "}, {"indent": "", "newl": ""}, {"newl": "\r\n"}])
            return op
        if k == "doc_display":
            return {"op": k, "doc": d, "file": a.choice([None, None] + self.files)}
        if k == "doc_elem_set":
            key = a.choice(["stroke", "fill", "data-late", "class"])
            return {"op": k, "doc": d, "i": a.randrange(8), "key": key,
                    "value": a.choice(VAL_NASTY if self.attr_mode == "nasty" else VAL_SIMPLE)}
        if k == "doc_group_set":
            if not dm.elems:
                return None
            return {"op": k, "doc": d, "names": list(a.choice(sorted(dm.elems))),
                    "transform": a.choice(sorted(GROUP_TRANSFORMS))}
        if k == "doc_text":
            return {"op": k, "doc": d, "pretty": a.random() < 0.4, "reader": a.choice(["svgstr2paths", "document_string"])}
        if k == "doc_mutate_result":
            return {"op": k, "doc": d, "i": a.randrange(8), "how": a.choice(["append", "del"]), "z": self.pt(a),
                    "z2": self.pt(a)}
        if k == "doc_paths":
            return {"op": k, "doc": d, "pfilter": a.random() < 0.4, "gfilter": a.random() < 0.3}
        if k == "doc_paths_from_group":
            if a.random() < 0.25:
                return {"op": k, "doc": d, "names": {"str": a.choice(["sgrp1", "sgrp2", "layer"])}, "recursive": True}
            return {"op": k, "doc": d, "names": a.choice(GROUP_POOL), "recursive": a.random() < 0.7,
                    "pfilter": a.random() < 0.35, "gfilter": a.random() < 0.25}
        return None


def generate_and_run(run_seed, tier):
    g = Gen(run_seed, tier)
    cfg = g.config()
    w = World(cfg)
    ops = []
    try:
        for _ in range(g.nops):
            op = g.next_op(w)
            w.step(len(ops), op)
            ops.append(op)
        res = w.finish()
    finally:
        w.close()
    res.pop("log", None)
    return {"property": NAME, "seed": run_seed, "config": cfg, "ops": ops}, res


# ----------------------------------------------------------------------------------------------
# shrinking moves, signatures, metadata
# ----------------------------------------------------------------------------------------------

def shrink_moves(hist):
    ops = hist["ops"]

    def with_op(i, new):
        h = dict(hist)
        h["ops"] = ops[:i] + [new] + ops[i + 1:]
        return h
    for i, op in enumerate(ops):
        if op.get("faults"):
            o = dict(op)
            o.pop("faults")
            yield with_op(i, o)
    if hist["config"].get("bufsize") != 8192 or hist["config"].get("chunk") != 8192:
        h = dict(hist)
        h["config"] = dict(hist["config"], bufsize=8192, chunk=8192)
        yield h
    if len(hist["config"].get("readers") or []) > 1:
        for rd in hist["config"]["readers"]:
            h = dict(hist)
            h["config"] = dict(hist["config"], readers=[x for x in hist["config"]["readers"] if x != rd])
            yield h
    for i, op in enumerate(ops):
        if op["op"] in ("wsvg", "disvg") and len(op["paths"]) > 1:
            for j in range(len(op["paths"])):
                o = dict(op)
                o["paths"] = op["paths"][:j] + op["paths"][j + 1:]
                if op.get("attrs") is not None:
                    o["attrs"] = op["attrs"][:j] + op["attrs"][j + 1:]
                for kk in ("colors", "stroke_widths"):
                    if kk in o:
                        o[kk] = o[kk][:j] + o[kk][j + 1:]
                yield with_op(i, o)
        for key in ("svg_attrs", "colors", "stroke_widths", "dimensions", "viewbox", "mindim", "timestamp",
                    "names_ref", "prettify", "openinbrowser"):
            if key in op and op[key] not in (None, False):
                o = dict(op)
                o.pop(key)
                yield with_op(i, o)
        if op.get("as") not in (None, "path"):
            yield with_op(i, dict(op, **{"as": "path"}))
        if op.get("dt") not in (None, 1.0):
            yield with_op(i, dict(op, dt=1.0))
        # attributes: drop whole dicts, then single keys
        if op["op"] in ("wsvg", "disvg") and op.get("attrs"):
            yield with_op(i, dict(op, attrs=None))
            for j, a in enumerate(op["attrs"]):
                for kk in list(a):
                    if kk != "id":
                        na = dict(a)
                        na.pop(kk)
                        yield with_op(i, dict(op, attrs=op["attrs"][:j] + [na] + op["attrs"][j + 1:]))
        if op["op"] == "doc_add_path" and op.get("attrs"):
            yield with_op(i, dict(op, attrs=None))
            for kk in list(op["attrs"]):
                if kk != "id":
                    na = dict(op["attrs"])
                    na.pop(kk)
                    yield with_op(i, dict(op, attrs=na))
        # simpler geometry
        specs = op.get("paths") or ([op["path"]] if "path" in op else [])
        for j, sp in enumerate(specs):
            if len(sp["segs"]) > 1:
                for cut in range(len(sp["segs"])):
                    ns = dict(sp, segs=sp["segs"][:cut] + sp["segs"][cut + 1:])
                    if "paths" in op:
                        yield with_op(i, dict(op, paths=op["paths"][:j] + [ns] + op["paths"][j + 1:]))
                    else:
                        yield with_op(i, dict(op, path=ns))
            for si, sg in enumerate(sp["segs"]):
                if sg[0] != "L":
                    nsg = ["L", sg[1], sg[-1]] if sg[1] != sg[-1] else ["L", sg[1], [sg[1][0] + 1.0, sg[1][1]]]
                    ns = dict(sp, segs=sp["segs"][:si] + [nsg] + sp["segs"][si + 1:])
                    if "paths" in op:
                        yield with_op(i, dict(op, paths=op["paths"][:j] + [ns] + op["paths"][j + 1:]))
                    else:
                        yield with_op(i, dict(op, path=ns))


def signature(hist, res, key):
    for v in res["violations"]:
        if v["key"] == key:
            return "%s | writer=%s | shape=%s | reader=%s | fault=%s" % (
                v["family"], v["writer"], v["shape"], v["reader"], v["fault"])
    return key


def describe(hist, res, key):
    for v in res["violations"]:
        if v["key"] == key:
            return "%s after ops [%s]: %s" % (v["family"], ", ".join(o["op"] for o in hist["ops"]),
                                              json.dumps(v["detail"], sort_keys=True, default=str)[:400])
    return key


RULE = ("A case is one simulated run: a seeded swarm configuration (fault_free or faulting, io buffer and text-chunk "
        "sizes, enabled readers, coordinate family, attribute mode, file-name pool, op mix, clock steps) and a history "
        "of 4-20 explicit operations (wsvg, disvg, Document create/load/add_path/add_group/get_or_add_group/"
        "paths/paths_from_group/save/display, SaxDocument re-save, reads through 8 reader entry points, restart) with "
        "an explicit fault plan, executed by the real writer/reader stack over SimFS/SimClock/SimBrowser and judged "
        "against the reference model after every operation. Non-trivial: at least one acknowledged write was read "
        "back and matched. Distinct: distinct sha256 digests of (op log with statuses and I/O-event counts, final SimFS "
        "content) among the non-trivial runs.")
STATE_MEASURE = ("states = distinct abstract world states: multiset over files of (complete|unacknowledged, number of "
                 "acceptable contents, shape {empty,flat,grouped,nested}, writer kind) x multiset over live documents of "
                 "(origin, shape, dirty-since-save); transitions = distinct (state, op kind)")
SIM_TIME_NOTE = "see simulated_clock_seconds_covered"
REAL_VS_STUB = {
    "real": ["svgpathtools.paths2svg (wsvg/disvg)", "svgpathtools.document.Document", "svgpathtools.svg_to_paths",
             "svgpathtools.svg_io_sax.SaxDocument", "svgpathtools.path/parser", "svgwrite", "xml.dom.minidom / expatbuilder",
             "xml.etree.ElementTree (+ C accelerator)", "pyexpat", "io.TextIOWrapper / BufferedWriter / BufferedReader / BufferedRandom"],
    "stub": ["operating-system file system -> SimFS (in-memory, POSIX subset: open/stat/mkdir/listdir/remove/replace)",
             "wall clock -> SimClock (time() as bound in paths2svg and document)", "tempfile.gettempdir -> /sim/tmp",
             "os.getcwd -> /sim/cwd", "webbrowser.get -> SimBrowser recorder"],
}
ASSUMPTIONS = [
    "sampling, not proof",
    "crash model: the process dies at an I/O event, the kernel survives (bytes that reached SimRaw.write persist); no power-loss model - the library never fsyncs and the property promises no such durability",
    "locale encoding fixed to UTF-8 (CPython's default in this sandbox)",
    "order oracle: paths with the same parent element keep their relative order (total order for flat documents); cross-group order is not constrained",
    "group transforms: nine generated strings whose matrices are tabulated by hand in the harness; Document readers are held to M*path pointwise (1e-7 of the path's magnitude), svg2paths* to the d attribute as written, SaxDocument to either; Arcs under a transform and transforms on path elements are not judged",
    "coordinates are finite doubles with |x| <= ~1e31 (disvg's canvas arithmetic overflows near the top of the double range)",
    "attribute keys are XML names without underscores, values are non-empty strings without control characters (svgwrite treats an empty value as unset and rewrites '_' to '-')",
]
EXPECTED_PROBES = [
    "overwrite_of_existing_file", "write_into_two_or_more_missing_directory_levels", "same_name_written_by_two_writers",
    "timestamped_write", "two_timestamped_writes_collide_on_one_name", "crash_restart", "restart",
    "crash_or_restart_with_dirty_document", "file_left_unacknowledged_by_failed_write",
    "torn_or_unacknowledged_file_overwritten", "same_names_list_object_passed_to_two_calls",
    "add_path_into_element_handle", "browser_opened", "document_loaded_from_wsvg", "document_loaded_from_sax",
    "pathlib_file_name", "paths_from_group_not_recursive", "document_loaded_from_foreign",
    "same_path_object_written_again", "segment_edited_in_place_between_two_writes", "group_given_as_plain_string",
    "reader_object_used_for_a_second_file", "query_result_edited_by_the_caller", "foreign_file_with_other_shapes",
    "nodes_drawn_as_circles", "working_directory_changed", "query_with_explicit_filters",
    "attribute_set_through_returned_element", "document_text_read_back",
]



# ----------------------------------------------------------------------------------------------
# per-seed fault sweep (DESIGN 4.4): for some seeds, one write operation of the fault-free version of
# the history is re-run with a crash at EVERY I/O event of that operation and an I/O error at EVERY
# raw write of it
# ----------------------------------------------------------------------------------------------

SWEEP_ONE_IN = {"quick": 12, "thorough": 25}


def derived(run_seed, tier, hist):
    if H("sweep", run_seed) % SWEEP_ONE_IN.get(tier, 12) != 0:
        return []
    base_ops = []
    for op in hist["ops"]:
        o = dict(op)
        o.pop("faults", None)
        base_ops.append(o)
    base = dict(hist, ops=base_ops, config=dict(hist["config"], faulting=True), seed=run_seed)
    r = replay(base, keep_log=True)
    if r["violations"]:
        return [(base, _strip(r))]
    cands = [i for i, e in enumerate(r["log"]) if e["op"]["op"] in WRITE_OPS and e["status"] == "ok"
             and e["op_events"] > 0]
    if not cands:
        return []
    target = cands[H("sweep-op", run_seed) % len(cands)]
    ev, wr = r["log"][target]["op_events"], r["log"][target]["op_writes"]
    plans = [[{"kind": "crash", "n": n}] for n in range(1, min(ev, 80) + 1)]
    plans += [[{"kind": "interrupt", "n": n}] for n in range(1, min(ev, 80) + 1, 2)]
    for n in range(1, min(wr, 40) + 1):
        plans.append([{"kind": "eio_write", "n": n, "k": (3 if n % 2 else 0)}])
        plans.append([{"kind": "short_write", "n": n, "k": 1}])
        plans.append([{"kind": "eagain_write", "n": n, "k": (5 if n % 2 else 0)}])
    for kind in ("eacces_open", "emfile_open", "eio_close"):
        plans.append([{"kind": kind, "n": 1}])
        plans.append([{"kind": kind, "n": 2}])
    out = []
    for plan in plans:
        ops = list(base_ops)
        ops[target] = dict(base_ops[target], faults=plan)
        h = dict(base, ops=ops, sweep={"of_seed": run_seed, "op_index": target, "plan": plan})
        out.append((h, _strip(replay(h))))
    return out


def _strip(res):
    res.pop("log", None)
    st = res["stats"]
    st["probes"] = dict(st.get("probes", {}), fault_sweep_run=1)
    return res
