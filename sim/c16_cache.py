"""C16 — cache-coherence simulation (DESIGN.md §3).

The world is an arena of live Path objects and segments of the *real* svgpathtools classes.  A seeded
scheduler interleaves mutations, aliasing object creations, queries, naturally failing operations
and (in the `interrupting` configuration) interrupts injected inside the integrators.  After every
operation the implementation is compared with (1) a plain-list model of the sequence, (2) a fresh
twin built from the current segments with cold caches, (3) equal => equal-hash.
"""
from __future__ import annotations

import copy
import math
import sys
import warnings

from .kernel import Streams, canon, digest_of, H, HarnessError, fhex

import numpy as np
import svgpathtools
import svgpathtools.path as sp_path
from svgpathtools import Path, Line, QuadraticBezier, CubicBezier, Arc, parse_path

NAME = "C16"
DEFAULT_TOL = (1e-12, 5)
FAIL_MIN_DEPTH = 3000          # > recursion limit: the fallback integrator raises RecursionError
MAX_VIOLATIONS = 12

_REAL_QUAD = getattr(sp_path, "quad", None)
_REAL_SEGLEN = sp_path.segment_length
_REAL_QUAD_AVAILABLE = sp_path._quad_available


class SimInterrupt(KeyboardInterrupt):
    """Injected cancellation inside an integrator (the user hits ^C during a slow length())."""


# ----------------------------------------------------------------------------------------------
# helpers
# ----------------------------------------------------------------------------------------------

def zc(z):
    """complex -> JSON pair"""
    z = complex(z)
    return [z.real, z.imag]


def cz(p):
    return complex(p[0], p[1])


def seg_kind(o):
    if isinstance(o, Line):
        return "L"
    if isinstance(o, QuadraticBezier):
        return "Q"
    if isinstance(o, CubicBezier):
        return "C"
    if isinstance(o, Arc):
        return "A"
    return "?"


def _lib_canon(v):
    if isinstance(v, Line):
        return ["Line", canon(v.start), canon(v.end)]
    if isinstance(v, QuadraticBezier):
        return ["Quad", canon(v.start), canon(v.control), canon(v.end)]
    if isinstance(v, CubicBezier):
        return ["Cubic", canon(v.start), canon(v.control1), canon(v.control2), canon(v.end)]
    if isinstance(v, Arc):
        return ["Arc", canon(v.start), canon(v.radius), canon(v.rotation), bool(v.large_arc),
                bool(v.sweep), canon(v.end)]
    if isinstance(v, Path):
        return ["Path", [_lib_canon(s) for s in v]]
    return NotImplemented


def C(v):
    return canon(v, _lib_canon)


def outcome(fn):
    """Run fn; return ('v', value) or ('e', exception class name).  SimInterrupt is reported as
    ('i', ...)."""
    try:
        return ("v", fn())
    except SimInterrupt:
        return ("i", "SimInterrupt")
    except RecursionError:
        return ("e", "RecursionError")
    except Exception as e:
        return ("e", type(e).__name__)


class _Alarm(Exception):
    pass


def _with_alarm(seconds, fn):
    """run fn under a wall-clock limit (worker processes are single-threaded); a result that depends on
    the limit is never judged, so real time does not leak into verdicts or digests"""
    import signal

    def on_alarm(signum, frame):
        raise _Alarm()
    old = signal.signal(signal.SIGALRM, on_alarm)
    signal.setitimer(signal.ITIMER_REAL, seconds)
    try:
        return fn()
    finally:
        signal.setitimer(signal.ITIMER_REAL, 0)
        signal.signal(signal.SIGALRM, old)


def _yes(x):
    """truth of a comparison result: True or numpy's True_ (segments made by the library can hold numpy
    scalars, whose == returns np.bool_); NotImplemented and anything else count as no"""
    if x is True:
        return True
    return type(x).__module__ == "numpy" and bool(x)


def _num_close(a, b, rtol, atol):
    if isinstance(a, (complex, np.complexfloating)) or isinstance(b, (complex, np.complexfloating)):
        a, b = complex(a), complex(b)
        if a == b:
            return True
        if any(math.isinf(x) or x != x for x in (a.real, a.imag, b.real, b.imag)):
            # infinities / NaNs: component by component (inf - inf is NaN, not 0)
            return _num_close(a.real, b.real, rtol, atol) and _num_close(a.imag, b.imag, rtol, atol)
        return abs(a - b) <= atol + rtol * max(abs(a), abs(b))
    a, b = float(a), float(b)
    if a != a and b != b:
        return True
    if a == b:
        return True
    if math.isinf(a) or math.isinf(b):
        return False
    return abs(a - b) <= atol + rtol * max(abs(a), abs(b))


def close_struct(a, b, rtol, atol):
    """Structural comparison with numeric tolerance."""
    if isinstance(a, (Line, QuadraticBezier, CubicBezier, Arc, Path)):
        return type(a) is type(b) and close_struct(_plain(a), _plain(b), rtol, atol)
    num = (int, float, complex, np.floating, np.integer, np.complexfloating)
    if isinstance(a, bool) or isinstance(b, bool) or a is None or b is None or isinstance(a, str):
        return type(a) is type(b) and a == b
    if isinstance(a, num) and isinstance(b, num):
        return _num_close(a, b, rtol, atol)
    if isinstance(a, (list, tuple)) and isinstance(b, (list, tuple)):
        return len(a) == len(b) and all(close_struct(x, y, rtol, atol) for x, y in zip(a, b))
    return C(a) == C(b)


def _plain(o):
    if isinstance(o, Line):
        return ("L", o.start, o.end)
    if isinstance(o, QuadraticBezier):
        return ("Q", o.start, o.control, o.end)
    if isinstance(o, CubicBezier):
        return ("C", o.start, o.control1, o.control2, o.end)
    if isinstance(o, Arc):
        return ("A", o.start, o.radius, o.rotation, bool(o.large_arc), bool(o.sweep), o.end)
    if isinstance(o, Path):
        return ("P", [_plain(s) for s in o])
    return o


# ----------------------------------------------------------------------------------------------
# arena records
# ----------------------------------------------------------------------------------------------

class SegRec:
    __slots__ = ("sid", "obj", "kind", "arc_ctor", "arc_snapshot", "assigns", "ulp", "group",
                 "tols", "origin", "strict")

    def __init__(self, sid, obj, origin):
        self.sid = sid
        self.obj = obj
        self.kind = seg_kind(obj)
        self.arc_ctor = None
        self.arc_snapshot = None
        self.assigns = []
        self.ulp = False          # value may legitimately differ from fresh by rounding (reversed())
        self.group = {sid}        # sids sharing one length-cache dict (reversed()/copy)
        self.tols = set()         # (error, min_depth) pairs with which a full length was requested
        self.origin = origin
        self.strict = False       # a stricter-than-default length may be cached: default answers are not unique


class PathRec:
    __slots__ = ("pid", "obj", "model", "origin", "warm", "mutated_after_warm", "closed_flag")

    def __init__(self, pid, obj, model, origin):
        self.pid = pid
        self.obj = obj
        self.model = model        # list of sids
        self.origin = origin
        self.warm = False
        self.mutated_after_warm = False
        self.closed_flag = False


# ----------------------------------------------------------------------------------------------
# the executor (one run)
# ----------------------------------------------------------------------------------------------

LENGTH_FAMILY = {"length", "length_T", "length_tol", "point", "T2t", "t2T", "ilength", "cropped",
                 "length_t", "length_fail"}
ENDPOINT_FAMILY = {"start", "end", "isclosed", "d_closed"}


def family_of(q):
    if q in LENGTH_FAMILY:
        return "length-family"
    if q in ENDPOINT_FAMILY:
        return "endpoint-family"
    if q == "hash":
        return "hash"
    if q == "seq":
        return "seq"
    return "other-query"


class World:
    def __init__(self, config):
        self.config = config
        self.quad = bool(config.get("quad", True))
        self.segs = {}
        self.paths = {}
        self.log = []
        self.violations = []
        self.seq = 0
        self.faults = {}
        self.probes = {}
        self.counters = {}
        self.states = set()
        self.transitions = set()
        self.nontrivial = False
        self._fault = None
        self._fault_calls = 0
        self._fault_active = False
        self._fault_fired = False
        self._cur_strict = False
        self._memo = {}
        self._install()

    # ---- seams --------------------------------------------------------------------------------
    def _install(self):
        warnings.simplefilter("ignore")
        if self.quad and not _REAL_QUAD_AVAILABLE:
            raise HarnessError("scipy not importable but configuration asks for it")
        sp_path._quad_available = self.quad
        self._np_err = np.geterr()
        world = self

        def quad_shim(f, a, b, **kw):
            flt = world._fault
            if flt is None or not world._fault_active:
                return _REAL_QUAD(f, a, b, **kw)

            def g(tau):
                world._fault_calls += 1
                if world._fault_calls == flt["at"]:
                    world._fault_fired = True
                    raise SimInterrupt()
                return f(tau)
            return _REAL_QUAD(g, a, b, **kw)

        def seglen_shim(*a, **kw):
            flt = world._fault
            if flt is not None and world._fault_active:
                world._fault_calls += 1
                if world._fault_calls == flt["at"]:
                    world._fault_fired = True
                    raise SimInterrupt()
            return _REAL_SEGLEN(*a, **kw)

        if self.config.get("interrupting"):
            if _REAL_QUAD is not None:
                sp_path.quad = quad_shim
            sp_path.segment_length = seglen_shim
        else:
            if _REAL_QUAD is not None:
                sp_path.quad = _REAL_QUAD
            sp_path.segment_length = _REAL_SEGLEN

    def close(self):
        if _REAL_QUAD is not None:
            sp_path.quad = _REAL_QUAD
        sp_path.segment_length = _REAL_SEGLEN
        sp_path._quad_available = _REAL_QUAD_AVAILABLE

    def impl(self, fn):
        """Run an operation of the implementation under test; injected faults are live only here
        (never while the oracle computes its fresh answers)."""
        self._fault_active = True
        try:
            return outcome(fn)
        finally:
            self._fault_active = False

    # ---- bookkeeping --------------------------------------------------------------------------
    def bump(self, d, k, n=1):
        d[k] = d.get(k, 0) + n

    def probe(self, name):
        self.bump(self.probes, name)

    def violate(self, op_index, family, q, detail):
        key = "%s|%s" % (family, q)
        if len(self.violations) < MAX_VIOLATIONS:
            self.violations.append({"key": key, "family": family, "query": q,
                                    "op_index": op_index, "detail": detail})

    # ---- twins --------------------------------------------------------------------------------
    def twin_seg(self, rec):
        o = rec.obj
        k = rec.kind
        if k == "L":
            return Line(o.start, o.end)
        if k == "Q":
            return QuadraticBezier(o.start, o.control, o.end)
        if k == "C":
            return CubicBezier(o.start, o.control1, o.control2, o.end)
        if k == "A":
            if rec.arc_ctor is not None:
                t = Arc(*rec.arc_ctor)
            else:
                t = copy.deepcopy(rec.arc_snapshot)
            for attr, z in rec.assigns:
                setattr(t, attr, z)
            return t
        raise HarnessError("unknown segment kind")

    def _twin_with_flag(self, prec):
        """fresh path of the current segments carrying the same (deprecated) closed flag"""
        t = self.twin_path(prec)
        if getattr(prec.obj, "_closed", False):
            try:
                t.closed = True
            except Exception:       # whatever the setter of the code under test makes of it
                pass
        return t

    def twin_path(self, prec):
        memo = {}
        segs = []
        for sid in prec.model:
            t = memo.get(sid)
            if t is None:
                t = memo[sid] = self.twin_seg(self.segs[sid])
            segs.append(t)
        return Path(*segs)

    def _seg_key(self, rec):
        o = rec.obj
        if rec.kind == "A":
            return None
        return (rec.kind,) + tuple(o.bpoints())

    def fresh_len(self, rec, e, m):
        """Full length of a fresh twin of this segment at tolerance (e, m); memoised (pure)."""
        key = self._seg_key(rec)
        if key is not None:
            mk = (key, e, m)
            if mk in self._memo:
                return self._memo[mk]
        t = self.twin_seg(rec)
        v = outcome(lambda: t.length(error=e, min_depth=m))
        if key is not None:
            self._memo[mk] = v
        return v

    # ---- adoption of library-created objects ----------------------------------------------------
    def adopt_seg(self, sid, obj, origin, src=None):
        rec = SegRec(sid, obj, origin)
        if rec.kind == "?":
            raise HarnessError("library returned a non-segment %r" % (obj,))
        if rec.kind == "A":
            if src is not None and origin == "copy":
                rec.arc_ctor = src.arc_ctor
                rec.arc_snapshot = src.arc_snapshot
                rec.assigns = list(src.assigns)
            else:
                ctor = (obj.start, obj.radius, obj.rotation, obj.large_arc, obj.sweep, obj.end,
                        getattr(obj, "autoscale_radius", True))
                ok = False
                try:
                    r = Arc(*ctor)
                    ok = (r == obj and C(r.center) == C(obj.center) and C(r.theta) == C(obj.theta)
                          and C(r.delta) == C(obj.delta) and C(r.radius) == C(obj.radius))
                except Exception:
                    ok = False
                if ok:
                    rec.arc_ctor = ctor
                else:
                    rec.arc_snapshot = copy.deepcopy(obj)
                    self.probe("arc_snapshot_twin")
        self.segs[sid] = rec
        return rec

    def sid_of_obj(self, obj):
        for sid, rec in self.segs.items():
            if rec.obj is obj:
                return sid
        return None

    def adopt_path(self, pid, obj, origin, sbase):
        model = []
        n = 0
        for s in list(obj):
            sid = self.sid_of_obj(s)
            if sid is None:
                sid = sbase + n
                n += 1
                while sid in self.segs:
                    sid += 1000
                self.adopt_seg(sid, s, origin)
            model.append(sid)
        prec = PathRec(pid, obj, model, origin)
        self.paths[pid] = prec
        return prec

    # ---- oracles --------------------------------------------------------------------------------
    def check_seq(self, idx, prec, pre_model, raised):
        """Oracle 1: list(p) is the model list, element for element by identity.  When the mutation
        raised, either the pre-state or the model's post-state is accepted (and adopted)."""
        try:
            cur = list(prec.obj)
            n = len(prec.obj)
        except Exception as e:
            self.violate(idx, "seq", "seq", {"error": "iteration raised %s" % type(e).__name__})
            return

        def same(model):
            return len(cur) == len(model) and all(self.segs[sid].obj is o for sid, o in zip(model, cur))

        if n == len(cur) and same(prec.model):
            return
        if raised and same(pre_model):
            prec.model = list(pre_model)
            self.probe("failed_mutation_left_pre_state")
            return
        self.violate(idx, "seq", "seq",
                     {"impl": [self.sid_of_obj(o) for o in cur], "model": list(prec.model),
                      "len": n})
        # resynchronise the model with the implementation so later checks stay meaningful
        new = []
        for o in cur:
            sid = self.sid_of_obj(o)
            if sid is None:
                sid = max(self.segs) + 1 if self.segs else 0
                self.adopt_seg(sid, o, "resync")
            new.append(sid)
        prec.model = new

    def path_taint(self, prec):
        ulp = any(self.segs[s].ulp for s in prec.model)
        return ulp

    def hash_sweep(self, idx):
        """Oracle 3: equal objects have equal hashes (live paths, segments and each path's twin)."""
        objs = [("p%d" % pid, pr.obj) for pid, pr in sorted(self.paths.items())]
        objs += [("s%d" % sid, r.obj) for sid, r in sorted(self.segs.items())]
        for pid, pr in sorted(self.paths.items()):
            objs.append(("twin(p%d)" % pid, self.twin_path(pr)))
        for sid, r in sorted(self.segs.items()):
            # a segment and a fresh segment built from its current defining values must be equal,
            # both ways, and then (below) hash alike
            t = self.twin_seg(r)
            try:
                ok = _yes(r.obj == t) and _yes(t == r.obj) and not _yes(r.obj != t)
            except Exception:
                ok = False
            if not ok:
                self.violate(idx, "other-query", "eq", {"a": "s%d" % sid, "b": "fresh twin", "a_val": C(r.obj),
                                                        "b_val": C(t)})
                return
            objs.append(("twin(s%d)" % sid, t))
        # equality itself is a query: for every pair of live objects, a == b must be what it is for
        # freshly built objects of the same current values (cached lengths etc. must not leak into it)
        live = [(nm, o, (self.twin_path(self.paths[int(nm[1:])]) if nm[0] == "p" else
                         self.twin_seg(self.segs[int(nm[1:])])))
                for nm, o in objs if nm[0] in "ps"]
        for i in range(len(live)):
            for j in range(i + 1, len(live)):
                (na, a, ta), (nb, b, tb) = live[i], live[j]
                if type(a) is not type(b):
                    continue
                try:
                    got = (_yes(a == b), _yes(b == a), _yes(a != b))
                    want = (_yes(ta == tb), _yes(tb == ta), _yes(ta != tb))
                except Exception:
                    continue
                if got != want:
                    self.violate(idx, "other-query", "eq",
                                 {"a": na, "b": nb, "impl": list(got), "fresh": list(want),
                                  "a_val": C(a), "b_val": C(b)})
                    return
        hs = []
        for name, o in objs:
            try:
                hs.append(hash(o))
            except Exception as e:
                hs.append(("exc", type(e).__name__))
        n = len(objs)
        for i in range(n):
            a = objs[i][1]
            for j in range(i + 1, n):
                b = objs[j][1]
                if type(a) is not type(b):
                    continue
                try:
                    eq = (a == b)
                except Exception:
                    continue
                if _yes(eq):
                    self.bump(self.counters, "equal_pairs_checked")
                    if hs[i] != hs[j]:
                        self.violate(idx, "hash", "hash",
                                     {"a": objs[i][0], "b": objs[j][0], "a_val": C(a), "b_val": C(b)})
                        return

    # ---- abstract state (coverage only; never decides pass/fail) ---------------------------------
    def abstract_state(self, prec):
        # coverage accounting only: private attributes may be renamed or restructured by a correct
        # refactor, so nothing in here may raise or decide anything
        try:
            return self._abstract_state(prec)
        except Exception:
            return H("opaque", len(prec.model))

    def _abstract_state(self, prec):
        p = prec.obj
        segs = [self.segs[s] for s in prec.model]
        first_ok = last_ok = True
        if segs:
            try:
                first_ok = getattr(p, "_start", None) == segs[0].obj.start
                last_ok = getattr(p, "_end", None) == segs[-1].obj.end
            except Exception:
                pass
        warm = []
        for r in segs[:4]:
            o = r.obj
            if r.kind in ("Q", "C"):
                li = getattr(o, "_length_info", None) or {}
                w = li.get("length") is not None
                tolc = 0
                if w and r.kind == "C":
                    tolc = 1 if (li.get("error"), li.get("min_depth")) == DEFAULT_TOL else 2
                warm.append((r.kind, w, tolc, len(r.group) > 1))
            elif r.kind == "A":
                warm.append(("A", getattr(o, "segment_length_hash", None) is not None,
                             getattr(o, "segment_length", 0) is None, False))
            else:
                warm.append(("L", False, 0, False))
        st = (getattr(p, "_length", None) is not None, getattr(p, "_lengths", None) is not None,
              first_ok, last_ok, len(segs) == 0, bool(getattr(p, "_closed", False)),
              any(r.kind == "A" for r in segs), len(set(prec.model)) != len(prec.model),
              min(len(segs), 4), tuple(warm))
        return H(st)

    def note_state(self, prec, opname):
        if prec is None:
            return
        s = self.abstract_state(prec)
        self.states.add(s)
        self.transitions.add(H(s, opname))

    # ---- compare helpers ------------------------------------------------------------------------
    ILL_CONDITIONED = {"derivative", "unit_tangent", "curvature", "normal", "cropped", "ilength", "area"}

    def compare(self, idx, q, impl, twin, tolerant, extra=None, rtol=1e-9, atol=0.0, what=None):
        """impl / twin are outcome tuples.  Returns True when they agree.  `what`: the query kind when `q`
        is only its symptom family."""
        if tolerant and (what or q) in self.ILL_CONDITIONED:
            # A last-bit difference in a cached length moves the segment parameter by a last bit; these
            # answers can amplify that without bound (a tangent next to a cusp, a bisection that stops one
            # step earlier, a crop that lands on the other side of a joint): on rounding-tainted objects
            # they are executed for their side effects but not judged.
            self.probe("inconclusive_ill_conditioned_query_on_rounding_tainted_object")
            return True
        if impl[0] == "i":
            return True     # interrupted operation: no value to judge
        if self._cur_strict and family_of(q) == "length-family":
            self.probe("inconclusive_after_stricter_than_default_tolerance")
            return True
        if impl[0] != twin[0]:
            ok = False
        elif impl[0] == "e":
            ok = impl[1] == twin[1]
        elif tolerant:
            ok = close_struct(impl[1], twin[1], rtol, atol)
        else:
            ok = C(impl[1]) == C(twin[1])
        if not ok:
            d = {"impl": self._render(impl), "fresh": self._render(twin), "tolerant": bool(tolerant)}
            if extra:
                d.update(extra)
            self.violate(idx, family_of(q), q, d)
        return ok

    def _render(self, oc):
        if oc[0] == "v":
            return {"value": C(oc[1]), "repr": _short(oc[1])}
        return {"raised": oc[1]}

    # ---- the step function ----------------------------------------------------------------------
    def step(self, idx, op):
        """Execute one explicit op; append to the event log; run the oracles."""
        self.seq += 1
        name = op["op"]
        entry = {"seq": self.seq, "op": op}
        flt = op.get("fault")
        self._fault = None
        self._fault_calls = 0
        self._fault_fired = False
        if flt and self.config.get("interrupting"):
            self._fault = flt
        try:
            handler = getattr(self, "op_" + name, None)
            if handler is None:
                raise HarnessError("unknown op %r" % (name,))
            status = handler(idx, op, entry)
        finally:
            self._fault = None
        if self._fault_fired:
            self.bump(self.faults, "interrupt_in_integrator")
            entry["fault_fired"] = True
        entry["status"] = status or "ok"
        err_now = np.geterr()
        if err_now != self._np_err:
            self.probe("np_seterr_leaked")
            np.seterr(**self._np_err)
        self.log.append(entry)
        self.bump(self.counters, "op:" + (op.get("q") and ("q." + op["q"]) or name))

    # ---- creation ops ---------------------------------------------------------------------------
    def _have(self, *, s=(), p=()):
        return all(x in self.segs for x in s) and all(x in self.paths for x in p)

    def op_new_seg(self, idx, op, entry):
        sid = op["id"]
        if sid in self.segs:
            return "skipped"
        k = op["kind"]
        try:
            if k == "A":
                a = op["arc"]
                ctor = (cz(a["start"]), cz(a["radius"]), float(a["rotation"]), bool(a["large_arc"]),
                        bool(a["sweep"]), cz(a["end"]))
                obj = Arc(*ctor)
            else:
                pts = [cz(p) for p in op["pts"]]
                obj = {"L": Line, "Q": QuadraticBezier, "C": CubicBezier}[k](*pts)
        except Exception as e:
            entry["out"] = {"raised": type(e).__name__}
            return "ctor_failed"
        rec = SegRec(sid, obj, "new")
        if k == "A":
            rec.arc_ctor = ctor + (True,)
        self.segs[sid] = rec
        return "ok"

    def op_new_path(self, idx, op, entry):
        pid = op["id"]
        if pid in self.paths or not self._have(s=op["segs"]):
            return "skipped"
        obj = Path(*[self.segs[s].obj for s in op["segs"]])
        self.paths[pid] = PathRec(pid, obj, list(op["segs"]), "new")
        self.note_state(self.paths[pid], "new_path")
        self.hash_sweep(idx)
        return "ok"

    def op_seg_reversed(self, idx, op, entry):
        if not self._have(s=[op["s"]]) or op["id"] in self.segs:
            return "skipped"
        src = self.segs[op["s"]]
        oc = outcome(lambda: src.obj.reversed())
        tw = outcome(lambda: self.twin_seg(src).reversed())
        self.compare(idx, "reversed", oc, tw, False)
        if oc[0] != "v":
            return "raised"
        rec = self.adopt_seg(op["id"], oc[1], "reversed", src)
        if rec.kind in ("Q", "C"):
            # the copy may carry the source's length (computed in the other direction), and through a
            # second reversed() that value can travel back to the source: both may differ from a
            # fresh computation in the last bits
            rec.ulp = True
            src.ulp = True
            rec.group = src.group
            src.group.add(rec.sid)
            rec.tols = src.tols      # shared dict => shared tolerance history
            rec.strict = src.strict
            self.probe("reversed_shares_cache")
        self.hash_sweep(idx)
        return "ok"

    def op_seg_copy(self, idx, op, entry):
        if not self._have(s=[op["s"]]) or op["id"] in self.segs:
            return "skipped"
        src = self.segs[op["s"]]
        obj = copy.copy(src.obj)
        rec = self.adopt_seg(op["id"], obj, "copy", src)
        if rec.kind in ("Q", "C"):
            rec.group = src.group
            src.group.add(rec.sid)
            rec.tols = src.tols
            rec.ulp = src.ulp
            rec.strict = src.strict
        elif rec.kind == "A":
            rec.tols = set(src.tols)        # the copy carries a copy of the cached length and its tolerance
            rec.strict = src.strict
        self.hash_sweep(idx)
        return "ok"

    def op_path_reversed(self, idx, op, entry):
        if not self._have(p=[op["p"]]) or op["id"] in self.paths:
            return "skipped"
        pr = self.paths[op["p"]]
        oc = outcome(lambda: pr.obj.reversed())
        tw = outcome(lambda: self.twin_path(pr).reversed())
        self.compare(idx, "reversed", oc, tw, False)
        if oc[0] != "v":
            return "raised"
        new = self.adopt_path(op["id"], oc[1], "reversed", op["sbase"])
        # pair each reversed segment with its source for cache-sharing bookkeeping
        if len(new.model) == len(pr.model):
            for nsid, ssid in zip(new.model, reversed(pr.model)):
                nrec, srec = self.segs[nsid], self.segs[ssid]
                if nrec.kind in ("Q", "C") and nrec.origin == "reversed" and nrec is not srec:
                    nrec.ulp = True
                    srec.ulp = True
                    nrec.group = srec.group
                    srec.group.add(nsid)
                    nrec.tols = srec.tols
                    nrec.strict = srec.strict
        self.note_state(new, "path_reversed")
        self.hash_sweep(idx)
        return "ok"

    def _clone_path(self, idx, op, entry, how, origin):
        """deepcopy / pickle round trip: a new path object that starts life with a *copy* of every
        cache of the original (path-level and segment-level)"""
        if not self._have(p=[op["p"]]) or op["id"] in self.paths:
            return "skipped"
        pr = self.paths[op["p"]]
        oc = outcome(lambda: how(pr.obj))
        if oc[0] != "v":
            self.violate(idx, "other-query", origin, {"raised": oc[1]})
            return "raised"
        newobj = oc[1]
        segs = list(newobj)
        if len(segs) != len(pr.model) or C(newobj) != C(pr.obj):
            self.violate(idx, "seq", "seq", {"note": origin + " of a path differs from the path",
                                             "impl": C(newobj), "orig": C(pr.obj)})
            return "ok"
        model, n = [], 0
        for o, ssid in zip(segs, pr.model):
            sid = self.sid_of_obj(o)
            if sid is None:
                sid = op["sbase"] + n
                n += 1
                while sid in self.segs:
                    sid += 1000
                src = self.segs[ssid]
                rec = self.adopt_seg(sid, o, "copy", src)
                if rec.kind in ("Q", "C"):
                    rec.tols = set(src.tols)
                    rec.ulp = src.ulp
                    rec.strict = src.strict
                elif rec.kind == "A":
                    rec.tols = set(src.tols)
                    rec.strict = src.strict
            model.append(sid)
        new = PathRec(op["id"], newobj, model, origin)
        new.warm = pr.warm
        new.closed_flag = pr.closed_flag
        self.paths[op["id"]] = new
        self.probe("path_cloned_with_its_caches")
        self.note_state(new, origin)
        self.hash_sweep(idx)
        return "ok"

    def op_path_deepcopy(self, idx, op, entry):
        return self._clone_path(idx, op, entry, copy.deepcopy, "deepcopy")

    def op_path_pickle(self, idx, op, entry):
        import pickle
        return self._clone_path(idx, op, entry, lambda p: pickle.loads(pickle.dumps(p)), "pickle")

    def op_path_slice(self, idx, op, entry):
        if not self._have(p=[op["p"]]) or op["id"] in self.paths:
            return "skipped"
        pr = self.paths[op["p"]]
        sl = slice(*op["sl"])
        oc = outcome(lambda: Path(*pr.obj[sl]))
        if oc[0] != "v":
            return "raised"
        model = pr.model[sl]
        new = PathRec(op["id"], oc[1], list(model), "slice")
        self.paths[op["id"]] = new
        self.check_seq(idx, new, model, False)
        self.probe("path_shares_segments_with_other_path")
        self.hash_sweep(idx)
        return "ok"

    def op_path_subpaths(self, idx, op, entry):
        if not self._have(p=[op["p"]]):
            return "skipped"
        pr = self.paths[op["p"]]
        oc = outcome(lambda: pr.obj.continuous_subpaths())
        tw = outcome(lambda: self.twin_path(pr).continuous_subpaths())
        self.compare(idx, "continuous_subpaths", oc, tw, False)
        if oc[0] != "v":
            return "raised"
        for k, sub in enumerate(oc[1][:6]):
            pid = op["idbase"] + k
            if pid in self.paths:
                continue
            self.adopt_path(pid, sub, "subpath", 10 ** 6 + pid * 50)
        self.hash_sweep(idx)
        return "ok"

    def op_path_reparse(self, idx, op, entry):
        if not self._have(p=[op["p"]]) or op["id"] in self.paths:
            return "skipped"
        pr = self.paths[op["p"]]
        o = op["opts"]
        kw = dict(useSandT=bool(o[0]), use_closed_attrib=bool(o[1]), rel=bool(o[2]))
        oc = outcome(lambda: parse_path(pr.obj.d(**kw)))
        tw = outcome(lambda: parse_path(self.twin_path(pr).d(**kw)))
        self.compare(idx, "d", oc, tw, False)
        if oc[0] != "v":
            return "raised"
        new = self.adopt_path(op["id"], oc[1], "parsed", op["sbase"])
        if getattr(oc[1], "_closed", False):
            self.probe("closed_flag_path_created")
            new.closed_flag = True
        self.note_state(new, "path_reparse")
        self.hash_sweep(idx)
        return "ok"

    # ---- mutations through Path's interface -----------------------------------------------------
    def _mutate(self, idx, op, impl_fn, model_fn, name):
        pr = self.paths[op["p"]]
        pre = list(pr.model)
        if pr.warm:
            pr.mutated_after_warm = True
            self.nontrivial = True
            self.probe("mutation_after_warm_cache")
        # model first (python list semantics), on a list of sids
        m = list(pr.model)
        try:
            model_fn(m)
            model_raised = None
        except Exception as e:
            model_raised = type(e).__name__
            m = pre
        pr.model = m
        oc = outcome(impl_fn)
        raised = oc[0] == "e"
        if raised:
            self.bump(self.faults, "natural_failure")
        self.check_seq(idx, pr, pre, raised)
        self.note_state(pr, name)
        if not pr.model:
            self.probe("path_emptied")
        self.hash_sweep(idx)
        return "raised:%s" % oc[1] if raised else "ok"

    def _obj(self, sid):
        return self.segs[sid].obj

    def op_setitem(self, idx, op, entry):
        if not self._have(p=[op["p"]], s=[op["s"]]):
            return "skipped"
        p, i, s = self.paths[op["p"]].obj, op["i"], op["s"]

        def impl():
            p[i] = self._obj(s)

        def model(m):
            m[i] = s
        return self._mutate(idx, op, impl, model, "setitem")

    def op_setslice(self, idx, op, entry):
        if not self._have(p=[op["p"]], s=op["segs"]):
            return "skipped"
        p, sl, ss = self.paths[op["p"]].obj, slice(*op["sl"]), list(op["segs"])

        def impl():
            p[sl] = [self._obj(s) for s in ss]

        def model(m):
            m[sl] = ss
        return self._mutate(idx, op, impl, model, "setslice")

    def op_insert(self, idx, op, entry):
        if not self._have(p=[op["p"]], s=[op["s"]]):
            return "skipped"
        p, i, s = self.paths[op["p"]].obj, op["i"], op["s"]
        return self._mutate(idx, op, lambda: p.insert(i, self._obj(s)), lambda m: m.insert(i, s),
                            "insert")

    def op_append(self, idx, op, entry):
        if not self._have(p=[op["p"]], s=[op["s"]]):
            return "skipped"
        p, s = self.paths[op["p"]].obj, op["s"]
        return self._mutate(idx, op, lambda: p.append(self._obj(s)), lambda m: m.append(s), "append")

    def op_extend(self, idx, op, entry):
        if not self._have(p=[op["p"]], s=op["segs"]):
            return "skipped"
        p, ss = self.paths[op["p"]].obj, list(op["segs"])
        return self._mutate(idx, op, lambda: p.extend([self._obj(s) for s in ss]),
                            lambda m: m.extend(ss), "extend")

    def op_extend_failing(self, idx, op, entry):
        """p.extend(it) where the lazy iterable raises after yielding `k` segments: what was yielded is in
        the path (list.extend semantics), and the path must be coherent about it"""
        if not self._have(p=[op["p"]], s=op["segs"]):
            return "skipped"
        p, ss, k = self.paths[op["p"]].obj, list(op["segs"]), int(op["k"])
        use_iadd = bool(op.get("iadd"))

        def gen():
            for j, sid in enumerate(ss):
                if j == k:
                    raise ValueError("iterable failed")
                yield self._obj(sid)

        def impl():
            if use_iadd:
                q = p
                q += gen()
            else:
                p.extend(gen())

        def model(m):
            m.extend(ss[:k])
            raise ValueError
        self.probe("extend_with_failing_iterable")
        pr = self.paths[op["p"]]
        pre = list(pr.model)
        st = self._mutate(idx, op, impl, lambda m: m.extend(ss[:k]), "extend_failing")
        return st

    def op_replace_same_ends(self, idx, op, entry):
        """del p[i]; the removed segment dies; a NEW segment with the same start and end but another
        interior is created right away (CPython hands it the freed address) and inserted at i.  One op, so
        that generation and replay allocate in the same order."""
        if not self._have(p=[op["p"]]) or op["id"] in self.segs:
            return "skipped"
        pr = self.paths[op["p"]]
        i = op["i"]
        if not (0 <= i < len(pr.model)):
            return "skipped"
        sid = pr.model[i]
        rec = self.segs[sid]
        if rec.kind not in ("Q", "C") or pr.model.count(sid) != 1 or \
                any(sid in o.model for o in self.paths.values() if o is not pr) or len(rec.group) > 1:
            return "skipped"
        if pr.warm:
            pr.mutated_after_warm = True
            self.nontrivial = True
        cls = QuadraticBezier if rec.kind == "Q" else CubicBezier
        a0, b0 = rec.obj.start, rec.obj.end
        inner = [cz(z) for z in op["inner"]][:(1 if rec.kind == "Q" else 2)]
        if len(inner) < (1 if rec.kind == "Q" else 2):
            return "skipped"
        p = pr.obj
        st = outcome(lambda: p.__delitem__(i))
        if st[0] != "v":
            return "raised"
        del self.segs[sid]
        self._memo.clear()
        old_id = id(rec.obj)
        rec.obj = None
        del rec
        new = cls(a0, *inner, b0)              # first allocation of this size after the free
        if id(new) == old_id:
            self.probe("new_segment_got_the_address_of_a_dead_one")
        self.segs[op["id"]] = SegRec(op["id"], new, "new")
        pr.model = pr.model[:i]  + pr.model[i + 1:]
        return self._mutate(idx, op, lambda: p.insert(i, new), lambda m: m.insert(i, op["id"]), "replace_same_ends")

    def op_forget_seg(self, idx, op, entry):
        """the caller drops its last reference to a free segment: the object dies (and CPython will hand
        its address to the next object of that size)"""
        sid = op["s"]
        if sid not in self.segs or any(sid in pr.model for pr in self.paths.values()):
            return "skipped"
        rec = self.segs.pop(sid)
        rec.group.discard(sid)
        self._memo.clear()
        del rec
        self.probe("segment_object_died")
        return "ok"

    def op_extend_self(self, idx, op, entry):
        if not self._have(p=[op["p"]]):
            return "skipped"
        p = self.paths[op["p"]].obj
        self.probe("same_segment_object_at_two_indices")
        return self._mutate(idx, op, lambda: p.extend(p), lambda m: m.extend(list(m)), "extend_self")

    def op_iadd(self, idx, op, entry):
        if not self._have(p=[op["p"]], s=op["segs"]):
            return "skipped"
        pr = self.paths[op["p"]]
        ss = list(op["segs"])

        def impl():
            p = pr.obj
            p += [self._obj(s) for s in ss]
            if p is not pr.obj:
                raise HarnessError("+= rebound the path object")

        def model(m):
            m += ss
        return self._mutate(idx, op, impl, model, "iadd")

    def op_delitem(self, idx, op, entry):
        if not self._have(p=[op["p"]]):
            return "skipped"
        p, i = self.paths[op["p"]].obj, op["i"]

        def impl():
            del p[i]

        def model(m):
            del m[i]
        return self._mutate(idx, op, impl, model, "delitem")

    def op_delslice(self, idx, op, entry):
        if not self._have(p=[op["p"]]):
            return "skipped"
        p, sl = self.paths[op["p"]].obj, slice(*op["sl"])

        def impl():
            del p[sl]

        def model(m):
            del m[sl]
        return self._mutate(idx, op, impl, model, "delslice")

    def op_pop(self, idx, op, entry):
        if not self._have(p=[op["p"]]):
            return "skipped"
        p, i = self.paths[op["p"]].obj, op.get("i")

        def impl():
            return p.pop() if i is None else p.pop(i)

        def model(m):
            return m.pop() if i is None else m.pop(i)
        return self._mutate(idx, op, impl, model, "pop")

    def op_remove(self, idx, op, entry):
        if not self._have(p=[op["p"]], s=[op["s"]]):
            return "skipped"
        pr = self.paths[op["p"]]
        target = self._obj(op["s"])

        def model(m):
            # list.remove semantics: first element that is identical or equal
            for k, sid in enumerate(m):
                o = self._obj(sid)
                if o is target or o == target:
                    del m[k]
                    return
            raise ValueError
        return self._mutate(idx, op, lambda: pr.obj.remove(target), model, "remove")

    def op_setslice_reversed(self, idx, op, entry):
        """p[:] = [s.reversed() for s in reversed(p)] - the whole path re-oriented in place through slice
        assignment (same number of segments, same total length, opposite orientation)"""
        if not self._have(p=[op["p"]]):
            return "skipped"
        pr = self.paths[op["p"]]
        new_sids = []
        for k, sid in enumerate(reversed(pr.model)):
            src = self.segs[sid]
            oc = outcome(lambda: src.obj.reversed())
            if oc[0] != "v":
                return "skipped"
            nsid = op["sbase"] + k
            while nsid in self.segs:
                nsid += 1000
            rec = self.adopt_seg(nsid, oc[1], "reversed", src)
            if rec.kind in ("Q", "C"):
                rec.ulp = True
                src.ulp = True
                rec.group = src.group
                src.group.add(rec.sid)
                rec.tols = src.tols
                rec.strict = src.strict
            new_sids.append(nsid)
        p = pr.obj

        def impl():
            p[:] = [self._obj(x) for x in new_sids]

        def model(m):
            m[:] = new_sids
        self.probe("path_reoriented_in_place")
        return self._mutate(idx, op, impl, model, "setslice_reversed")

    def op_path_concat(self, idx, op, entry):
        """concatpaths([...]): a new path made by the library out of existing paths' segments"""
        if not self._have(p=op["paths"]) or op["id"] in self.paths:
            return "skipped"
        srcs = [self.paths[x] for x in op["paths"]]
        oc = outcome(lambda: sp_path.concatpaths([x.obj for x in srcs]))
        tw = outcome(lambda: sp_path.concatpaths([self.twin_path(x) for x in srcs]))
        self.compare(idx, "concat", oc, tw, False)
        if oc[0] != "v" or not isinstance(oc[1], Path):
            return "raised"
        new = self.adopt_path(op["id"], oc[1], "concat", 10 ** 7 + op["id"] * 100)
        self.probe("path_made_by_concatpaths")
        self.note_state(new, "path_concat")
        self.hash_sweep(idx)
        return "ok"

    def op_reverse(self, idx, op, entry):
        if not self._have(p=[op["p"]]):
            return "skipped"
        p = self.paths[op["p"]].obj
        return self._mutate(idx, op, lambda: p.reverse(), lambda m: m.reverse(), "reverse")

    def op_clear(self, idx, op, entry):
        if not self._have(p=[op["p"]]):
            return "skipped"
        p = self.paths[op["p"]].obj

        def model(m):
            del m[:]
        return self._mutate(idx, op, lambda: p.clear(), model, "clear")

    def op_approx_arcs(self, idx, op, entry):
        """Path.approximate_arcs_with_cubics()/_with_quads(): in-place mutators of Path's own interface
        that replace every Arc by library-made Bezier segments."""
        if not self._have(p=[op["p"]]):
            return "skipped"
        pr = self.paths[op["p"]]
        meth = "approximate_arcs_with_cubics" if op.get("kind", "cubics") == "cubics" else "approximate_arcs_with_quads"
        err = float(op.get("error", 0.1))
        if pr.warm:
            pr.mutated_after_warm = True
            self.nontrivial = True
            self.probe("mutation_after_warm_cache")
        tw = self.twin_path(pr)
        toc = outcome(lambda: getattr(tw, meth)(error=err))
        oc = outcome(lambda: getattr(pr.obj, meth)(error=err))
        if oc[0] == "e":
            self.bump(self.faults, "natural_failure")
        if oc[0] != toc[0] or (oc[0] == "e" and oc[1] != toc[1]):
            self.violate(idx, "other-query", meth, {"impl": self._render(oc), "fresh": self._render(toc)})
        # adopt what the path now holds; segments that were there before keep their identity
        try:
            cur = list(pr.obj)
        except Exception:
            cur = []
        model, n = [], 0
        for o in cur:
            sid = self.sid_of_obj(o)
            if sid is None:
                sid = op["sbase"] + n
                n += 1
                while sid in self.segs:
                    sid += 1000
                self.adopt_seg(sid, o, "approx")
            model.append(sid)
        kept_before = [x for x in pr.model if self.segs[x].kind != "A"]
        kept_after = [x for x in model if x in set(pr.model)]
        if oc[0] == "v" and (kept_before != kept_after or any(self.segs[x].kind == "A" for x in model)
                             or C(Path(*cur)) != C(tw)):
            self.violate(idx, "seq", "seq", {"note": meth + " left another segment list than on a fresh path",
                                             "impl": C(Path(*cur)), "fresh": C(tw)})
        pr.model = model
        self.probe("arcs_approximated_in_place")
        self.note_state(pr, "approx_arcs")
        self.hash_sweep(idx)
        return "ok" if oc[0] == "v" else "raised"

    def _retire_sharers(self, sid, except_pid=None):
        """A segment was edited: every *other* live path holding that object was edited behind its
        back, which the property says nothing about -> retire those paths from the arena."""
        for pid in [pid for pid, pr in self.paths.items() if pid != except_pid and sid in pr.model]:
            del self.paths[pid]
            self.probe("path_retired_segment_edited_behind_its_back")

    def _set_endpoint(self, idx, op, which):
        if not self._have(p=[op["p"]]):
            return "skipped"
        pr = self.paths[op["p"]]
        z = cz(op["z"])
        if pr.model:
            sid = pr.model[0] if which == "start" else pr.model[-1]
            rec = self.segs[sid]
            self._retire_sharers(sid, except_pid=pr.pid)
            if rec.kind == "A":
                rec.assigns.append((which, z))
                self.probe("endpoint_assigned_on_arc")
            if pr.model.count(sid) > 1:
                self.probe("endpoint_assigned_where_segment_is_at_two_indices")

        def impl():
            setattr(pr.obj, which, z)
        return self._mutate(idx, op, impl, lambda m: None, "set_" + which)

    def op_set_closed(self, idx, op, entry):
        """the deprecated `closed` setter: changes a flag only; every query must go on answering as a fresh
        path of the same segments (carrying the same flag) does"""
        if not self._have(p=[op["p"]]):
            return "skipped"
        pr = self.paths[op["p"]]
        val = bool(op["value"])
        tw = self._twin_with_flag(pr)
        toc = outcome(lambda: setattr(tw, "closed", val))
        oc = outcome(lambda: setattr(pr.obj, "closed", val))
        if oc[0] != toc[0] or (oc[0] == "e" and oc[1] != toc[1]):
            self.violate(idx, "endpoint-family", "closed", {"impl": self._render(oc), "fresh": self._render(toc)})
        if getattr(pr.obj, "_closed", False):
            pr.closed_flag = True
        self.check_seq(idx, pr, list(pr.model), oc[0] == "e")
        self.note_state(pr, "set_closed")
        self.hash_sweep(idx)
        return "ok" if oc[0] == "v" else "raised"

    def op_path_transform(self, idx, op, entry):
        """rotated / translated / scaled: a NEW path made by the library from an existing one"""
        if not self._have(p=[op["p"]]) or op["id"] in self.paths:
            return "skipped"
        pr = self.paths[op["p"]]
        kind = op["kind"]
        if kind == "translated":
            call = lambda p: p.translated(cz(op["z"]))          # noqa: E731
        elif kind == "rotated":
            call = lambda p: p.rotated(float(op["deg"]), origin=cz(op["z"]))   # noqa: E731
        else:
            call = lambda p: p.scaled(float(op["sx"]), float(op["sy"]))        # noqa: E731
        if kind != "translated" and any(self.segs[x].kind == "A" for x in pr.model) and not self.quad:
            return "skipped"
        oc = outcome(lambda: call(pr.obj))
        tw = outcome(lambda: call(self.twin_path(pr)))
        self.compare(idx, "transformed", oc, tw, self.path_taint(pr), rtol=1e-9, atol=self._scale_atol(pr))
        if oc[0] != "v" or not isinstance(oc[1], Path):
            return "raised"
        new = self.adopt_path(op["id"], oc[1], "transformed", op["sbase"])
        self.probe("path_made_by_" + kind)
        self.note_state(new, "path_transform")
        self.hash_sweep(idx)
        return "ok"

    def op_seg_split(self, idx, op, entry):
        """seg.split(t) / seg.cropped(t0, t1): new free segments made by the library"""
        if not self._have(s=[op["s"]]):
            return "skipped"
        src = self.segs[op["s"]]
        if src.kind == "A" and not self.quad:
            return "skipped"
        t = float(op["t"])
        oc = outcome(lambda: src.obj.split(t))
        tw = outcome(lambda: self.twin_seg(src).split(t))
        self.compare(idx, "split", oc, tw, False)
        if oc[0] != "v":
            return "raised"
        for k, o in enumerate(list(oc[1])[:2]):
            sid = op["id"] + k
            if sid not in self.segs and seg_kind(o) != "?":
                self.adopt_seg(sid, o, "split")
        self.hash_sweep(idx)
        return "ok"

    def op_set_start(self, idx, op, entry):
        return self._set_endpoint(idx, op, "start")

    def op_set_end(self, idx, op, entry):
        return self._set_endpoint(idx, op, "end")

    # ---- segment mutation -------------------------------------------------------------------------
    def op_seg_set(self, idx, op, entry):
        if not self._have(s=[op["s"]]):
            return "skipped"
        rec = self.segs[op["s"]]
        attr = op["attr"]
        legal = {"L": ("start", "end"), "Q": ("start", "control", "end"),
                 "C": ("start", "control1", "control2", "end")}.get(rec.kind, ())
        if attr not in legal:
            return "skipped"
        self._retire_sharers(rec.sid)
        setattr(rec.obj, attr, cz(op["z"]))
        if rec.tols:
            self.nontrivial = True
            self.probe("control_point_reassigned_after_warm_cache")
            if len(rec.group) > 1:
                self.probe("edited_segment_shares_cache_with_reversed_copy")
        self.hash_sweep(idx)
        return "ok"

    # ---- queries ------------------------------------------------------------------------------------
    def op_q(self, idx, op, entry):
        q = op["q"]
        if op["on"] == "p":
            if not self._have(p=[op["id"]]):
                return "skipped"
            pr = self.paths[op["id"]]
            st = self._query_path(idx, op, pr, q, entry)
            self.note_state(pr, "q." + q)
            return st
        else:
            if not self._have(s=[op["id"]]):
                return "skipped"
            return self._query_seg(idx, op, self.segs[op["id"]], q, entry)

    def _tol_ok(self, e, m):
        """Tolerances the executor accepts.  Stricter-than-default ones are judged like any other (the
        answer must be the fresh value at that tolerance or a legitimately cached stricter one); what they
        cost is exactness afterwards: once a stricter value may sit in a cache, default-tolerance answers
        that depend on lengths have more than one legitimate value, and those comparisons are skipped for
        the objects concerned (`strict`)."""
        return 1e-16 <= e and 0 <= m <= 12

    @staticmethod
    def _is_strict(e, m):
        return e < DEFAULT_TOL[0] or m > DEFAULT_TOL[1]

    def _legit_seg_lengths(self, rec, e, m):
        """Outcomes a correct cache may return for a full-length request at (e, m): the fresh value
        at (e, m), or the fresh value at any previously requested tolerance at least as strict."""
        out = [self.fresh_len(rec, e, m)]
        for (e2, m2) in sorted(rec.tols):
            if e2 <= e and m2 >= m and (e2, m2) != (e, m):
                alt = self.fresh_len(rec, e2, m2)
                if alt[0] == "v":
                    out.append(alt)
        return out

    def _note_tol(self, rec, e, m):
        if rec.kind in ("Q", "C", "A"):
            rec.tols.add((e, m))
            if self._is_strict(e, m) and m != FAIL_MIN_DEPTH:
                for sid in rec.group:
                    if sid in self.segs:
                        self.segs[sid].strict = True

    def _query_seg(self, idx, op, rec, q, entry):
        self._cur_strict = rec.strict
        try:
            return self._query_seg2(idx, op, rec, q, entry)
        finally:
            self._cur_strict = False

    def _query_seg2(self, idx, op, rec, q, entry):
        o = rec.obj
        tolerant = rec.ulp
        tw = None
        if q == "length":
            oc = self.impl(lambda: o.length())
            legit = self._legit_seg_lengths(rec, *DEFAULT_TOL)
            self._judge_len(idx, q, oc, legit, tolerant, self._seg_atol(rec) if tolerant else 0.0)
            if True:    # also after an interrupt: part of the work may have been done and cached
                self._note_tol(rec, *DEFAULT_TOL)
        elif q == "length_tol":
            e, m = float(op["e"]), int(op["m"])
            if not self._tol_ok(e, m):
                return "skipped"
            oc = self.impl(lambda: o.length(error=e, min_depth=m))
            legit = self._legit_seg_lengths(rec, e, m)
            self._judge_len(idx, q, oc, legit, tolerant, self._seg_atol(rec) if tolerant else 0.0)
            if True:    # also after an interrupt: part of the work may have been done and cached
                self._note_tol(rec, e, m)
            if (e, m) != DEFAULT_TOL:
                self.probe("nondefault_tolerance_query")
        elif q == "length_fail":
            # deliberately failing request (min_depth beyond the recursion limit); no value is judged
            oc = self.impl(lambda: o.length(min_depth=FAIL_MIN_DEPTH))
            if oc[0] == "e":
                if oc[1] == "RecursionError":
                    self.probe("natural_RecursionError")
            elif oc[0] == "v":
                # with scipy the request simply succeeds (min_depth is unused) and may be cached
                self._note_tol(rec, DEFAULT_TOL[0], FAIL_MIN_DEPTH)
        elif q == "length_t":
            t0, t1 = op["t0"], op["t1"]
            oc = self.impl(lambda: o.length(t0, t1))
            tw = outcome(lambda: self.twin_seg(rec).length(t0, t1))
            if tolerant and rec.kind == "Q" and (t0, t1) == (1, 0):
                self.probe("inconclusive_ill_conditioned_query_on_rounding_tainted_object")
            elif (t0, t1) == (0, 1):
                legit = self._legit_seg_lengths(rec, *DEFAULT_TOL)
                self._judge_len(idx, q, oc, legit, tolerant, self._seg_atol(rec) if tolerant else 0.0)
                if True:    # also after an interrupt: part of the work may have been done and cached
                    self._note_tol(rec, *DEFAULT_TOL)
            else:
                self.compare(idx, q, oc, tw, tolerant, atol=self._seg_atol(rec) if tolerant else 0.0)
        elif q == "point":
            t = op["t"]
            oc = self.impl(lambda: o.point(t))
            tw = outcome(lambda: self.twin_seg(rec).point(t))
            self.compare(idx, q, oc, tw, False)
        elif q == "bbox":
            oc = self.impl(lambda: o.bbox())
            tw = outcome(lambda: self.twin_seg(rec).bbox())
            self.compare(idx, q, oc, tw, False)
        elif q in ("derivative", "unit_tangent"):
            t = op["t"]
            oc = self.impl(lambda: getattr(o, q)(t))
            tw = outcome(lambda: getattr(self.twin_seg(rec), q)(t))
            self.compare(idx, "point", oc, tw, False)
        elif q == "points":
            ts = [0.0, 0.25, 0.5, 1.0]
            if rec.kind == "A":
                return "skipped"
            oc = self.impl(lambda: [complex(z) for z in o.points(ts)])
            tw = outcome(lambda: [complex(z) for z in self.twin_seg(rec).points(ts)])
            self.compare(idx, "point", oc, tw, False)
        elif q == "length_rev":
            oc = self.impl(lambda: o.length(1, 0))
            tw = outcome(lambda: self.twin_seg(rec).length(1, 0))
            if rec.kind == "A":
                return "skipped"
            if tolerant and rec.kind == "Q":
                # QuadraticBezier caches exactly this call, reversed() hands the value to the copy, and the
                # closed form is unstable for (nearly) collinear control points: forward and backward
                # evaluation can differ without bound there (inf vs -6e-06 in a soak) - not a stale cache
                self.probe("inconclusive_ill_conditioned_query_on_rounding_tainted_object")
            else:
                self.compare(idx, "length_t", oc, tw, tolerant, atol=self._seg_atol(rec) if tolerant else 0.0)
        elif q == "poly":
            oc = self.impl(lambda: [complex(c) for c in o.poly(return_coeffs=True)])
            tw = outcome(lambda: [complex(c) for c in self.twin_seg(rec).poly(return_coeffs=True)])
            self.compare(idx, "point", oc, tw, False)
        elif q == "ilength":
            s = op["s"]
            oc = self.impl(lambda: o.ilength(s))
            tw = outcome(lambda: self.twin_seg(rec).ilength(s))
            if tolerant and self._near_total(self.fresh_len(rec, *DEFAULT_TOL), s):
                self.probe("inconclusive_boundary_query_on_rounding_tainted_path")
            else:
                self.compare(idx, q, oc, tw, tolerant, rtol=1e-7, atol=1e-9)
            if True:    # also after an interrupt: part of the work may have been done and cached
                self._note_tol(rec, *DEFAULT_TOL)
        elif q == "repr":
            oc = outcome(lambda: repr(o))
            tw = outcome(lambda: repr(self.twin_seg(rec)))
            self.compare(idx, q, oc, tw, False)
        elif q == "eq":
            if not self._have(s=[op["other"]]):
                return "skipped"
            other = self.segs[op["other"]]
            oc = outcome(lambda: (o == other.obj, o != other.obj))
            tw = outcome(lambda: (self.twin_seg(rec) == self.twin_seg(other),
                                  self.twin_seg(rec) != self.twin_seg(other)))
            self.compare(idx, q, oc, tw, False)
        else:
            raise HarnessError("unknown segment query %r" % q)
        if oc[0] == "e":
            self.bump(self.faults, "natural_failure")
        if q in ("length", "length_tol", "length_t", "ilength", "length_fail"):
            self.hash_sweep(idx)
        entry["out"] = self._render(oc) if oc[0] != "i" else {"interrupted": True}
        return "ok"

    def _judge_len(self, idx, q, oc, legit, tolerant, atol=0.0):
        if oc[0] == "i":
            return
        for lg in legit:
            if oc[0] != lg[0]:
                continue
            if oc[0] == "e":
                if oc[1] == lg[1]:
                    return
            elif tolerant:
                if close_struct(oc[1], lg[1], 1e-9, atol):
                    return
            elif C(oc[1]) == C(lg[1]):
                return
        self.violate(idx, "length-family", q,
                     {"impl": self._render(oc), "fresh": self._render(legit[0]),
                      "legit_alternatives": [self._render(x) for x in legit[1:]],
                      "tolerant": bool(tolerant)})

    def _path_len_hull(self, pr, e, m):
        """[lo, hi] of the sums a correct implementation may return for Path.length(error=e,
        min_depth=m) — or an exception name when a fresh path raises."""
        los, his = [], []
        for sid in pr.model:
            rec = self.segs[sid]
            vals = []
            for lg in self._legit_seg_lengths(rec, e, m):
                if lg[0] == "e":
                    return ("e", lg[1])
                vals.append(lg[1])
            los.append(min(vals))
            his.append(max(vals))
        return ("v", sum(los), sum(his))

    def _judge_path_len(self, idx, q, pr, oc, e, m, tolerant):
        if oc[0] == "i":
            return
        # first: exactly what a fresh path answers for this very request (same code, same summation)
        tw = outcome(lambda: self.twin_path(pr).length(error=e, min_depth=m))
        if tw[0] == oc[0] and ((oc[0] == "e" and oc[1] == tw[1]) or (oc[0] == "v" and C(oc[1]) == C(tw[1]))):
            return
        # otherwise: any combination of legitimately cached per-segment values (see _legit_seg_lengths);
        # the hull is computed here with Python's sum(), the implementation may add in another order
        hull = self._path_len_hull(pr, e, m)
        ok = False
        if hull[0] == "e":
            ok = oc[0] == "e" and oc[1] == hull[1]
        elif oc[0] == "v":
            v = oc[1]
            try:
                v = float(v)
                lo, hi = float(hull[1]), float(hull[2])
                if v == lo or v == hi or (v != v and (lo != lo or hi != hi)):
                    ok = True
                elif math.isinf(lo) or math.isinf(hi) or lo != lo or hi != hi:
                    ok = False
                else:
                    slack = (1e-9 * max(abs(lo), abs(hi)) + self._scale_atol(pr)) if tolerant else \
                        8 * max(1, len(pr.model)) * 2.3e-16 * max(abs(lo), abs(hi))   # summation order only
                    ok = lo - slack <= v <= hi + slack
            except (TypeError, ValueError):
                ok = False
        if not ok:
            self.violate(idx, "length-family", q,
                         {"impl": self._render(oc),
                          "fresh": ({"raised": hull[1]} if hull[0] == "e" else
                                    {"lo": C(hull[1]), "hi": C(hull[2]), "repr": repr(hull[1])}),
                          "tolerant": bool(tolerant)})

    def _mark_path_tols(self, pr, e, m):
        for sid in pr.model:
            self._note_tol(self.segs[sid], e, m)

    def _query_path(self, idx, op, pr, q, entry):
        self._cur_strict = any(self.segs[x].strict for x in pr.model)
        try:
            return self._query_path2(idx, op, pr, q, entry)
        finally:
            self._cur_strict = False

    def _query_path2(self, idx, op, pr, q, entry):
        p = pr.obj
        tolerant = self.path_taint(pr)
        T = lambda: self.twin_path(pr)   # noqa: E731  (fresh twin for every query)
        has_arc = any(self.segs[s].kind == "A" for s in pr.model)
        warmed = False
        if pr.mutated_after_warm:
            self.probe("query_after_mutation_after_warm")
        if not pr.model:
            self.probe("query_on_empty_path")
        elif all(self._is_degenerate(self.segs[x]) for x in pr.model):
            self.probe("query_on_path_of_total_length_zero")
        if q == "length":
            oc = self.impl(lambda: p.length())
            self._judge_path_len(idx, q, pr, oc, *DEFAULT_TOL, tolerant)
            if True:    # also after an interrupt: part of the work may have been done and cached
                self._mark_path_tols(pr, *DEFAULT_TOL)
            warmed = True
        elif q == "length_tol":
            e, m = float(op["e"]), int(op["m"])
            if not self._tol_ok(e, m):
                return "skipped"
            oc = self.impl(lambda: p.length(error=e, min_depth=m))
            self._judge_path_len(idx, q, pr, oc, e, m, tolerant)
            if True:    # also after an interrupt: part of the work may have been done and cached
                self._mark_path_tols(pr, e, m)
            if (e, m) != DEFAULT_TOL:
                self.probe("nondefault_tolerance_query")
            if self._is_strict(e, m):
                self.probe("stricter_than_default_tolerance_query")
            warmed = True
        elif q == "length_fail":
            oc = self.impl(lambda: p.length(min_depth=FAIL_MIN_DEPTH))
            if oc[0] == "e":
                if oc[1] == "RecursionError":
                    self.probe("natural_RecursionError")
            elif oc[0] == "v":
                self._mark_path_tols(pr, DEFAULT_TOL[0], FAIL_MIN_DEPTH)
            warmed = True
        elif q == "length_T":
            T0, T1 = op["T0"], op["T1"]
            oc = self.impl(lambda: p.length(T0, T1))
            if (T0, T1) == (0, 1):
                self._judge_path_len(idx, q, pr, oc, *DEFAULT_TOL, tolerant)
            else:
                tw = outcome(lambda: T().length(T0, T1))
                if tolerant and (self._near_boundary(pr, T0) or self._near_boundary(pr, T1)):
                    # (length(T0, T1) is not continuous in T across a joint when T1 < T0)
                    self.probe("inconclusive_boundary_query_on_rounding_tainted_path")
                else:
                    self.compare(idx, q, oc, tw, tolerant, atol=self._scale_atol(pr) if tolerant else 0.0)
            if True:    # also after an interrupt: part of the work may have been done and cached
                self._mark_path_tols(pr, *DEFAULT_TOL)
            warmed = True
        elif q == "point":
            Tv = op["T"]
            oc = self.impl(lambda: p.point(Tv))
            tw = outcome(lambda: T().point(Tv))
            if tolerant and self._near_boundary(pr, Tv):
                self.probe("inconclusive_boundary_query_on_rounding_tainted_path")
            else:
                self.compare(idx, q, oc, tw, tolerant, atol=self._scale_atol(pr) if tolerant else 0.0)
            if True:    # also after an interrupt: part of the work may have been done and cached
                # (marking is a superset: any query that may have asked segments for their default
                #  length makes the default-tolerance value a legitimate cached answer later)
                self._mark_path_tols(pr, *DEFAULT_TOL)
                warmed = Tv not in (0, 1)
        elif q == "T2t":
            Tv = op["T"]
            oc = self.impl(lambda: p.T2t(Tv))
            tw = outcome(lambda: T().T2t(Tv))
            if tolerant and self._near_boundary(pr, Tv):
                self.probe("inconclusive_boundary_query_on_rounding_tainted_path")
            elif tolerant and oc[0] == "v" and tw[0] == "v":
                # compare through the twin's own inverse map: invariant to which side of a
                # segment boundary a rounding-level difference lands on
                try:
                    k, t = oc[1]
                    back = T().t2T(int(k), t)
                    ok = _num_close(back, Tv, 1e-9, 1e-9)
                except Exception:
                    ok = False
                if not ok:
                    self.compare(idx, q, oc, tw, True, atol=1e-9)
            else:
                self.compare(idx, q, oc, tw, tolerant)
            if True:    # also after an interrupt: part of the work may have been done and cached
                # (marking is a superset: any query that may have asked segments for their default
                #  length makes the default-tolerance value a legitimate cached answer later)
                self._mark_path_tols(pr, *DEFAULT_TOL)
                warmed = Tv not in (0, 1)
        elif q == "t2T":
            k, t = op["k"], op["t"]
            oc = self.impl(lambda: p.t2T(k, t))
            tw = outcome(lambda: T().t2T(k, t))
            self.compare(idx, q, oc, tw, tolerant, atol=1e-9 if tolerant else 0.0)
            if True:    # also after an interrupt: part of the work may have been done and cached
                self._mark_path_tols(pr, *DEFAULT_TOL)
            warmed = True
        elif q == "ilength":
            s = op["s"]
            oc = self.impl(lambda: p.ilength(s))
            tw = outcome(lambda: T().ilength(s))
            if tolerant and (self._near_total(outcome(lambda: T().length()), s)
                             or self._near_boundary_s(pr, s)):
                self.probe("inconclusive_boundary_query_on_rounding_tainted_path")
            else:
                self.compare(idx, q, oc, tw, tolerant, rtol=1e-7, atol=1e-9)
            if True:    # also after an interrupt: part of the work may have been done and cached
                self._mark_path_tols(pr, *DEFAULT_TOL)
            warmed = True
        elif q == "cropped":
            T0, T1 = op["T0"], op["T1"]
            oc = self.impl(lambda: p.cropped(T0, T1))
            tw = outcome(lambda: T().cropped(T0, T1))
            if tolerant and (self._near_boundary(pr, T0) or self._near_boundary(pr, T1)):
                self.probe("inconclusive_boundary_query_on_rounding_tainted_path")
            else:
                self.compare(idx, q, oc, tw, tolerant, rtol=1e-7, atol=self._scale_atol(pr) if tolerant else 0.0)
            if True:    # also after an interrupt: part of the work may have been done and cached
                self._mark_path_tols(pr, *DEFAULT_TOL)
            warmed = True
        elif q in ("start", "end"):
            oc = outcome(lambda: getattr(p, q))
            tw = outcome(lambda: getattr(T(), q))
            self.compare(idx, q, oc, tw, False)
        elif q == "bbox":
            oc = self.impl(lambda: p.bbox())
            tw = outcome(lambda: T().bbox())
            self.compare(idx, q, oc, tw, False)
        elif q == "d":
            o = op["opts"]
            kw = dict(useSandT=bool(o[0]), use_closed_attrib=bool(o[1]), rel=bool(o[2]))
            oc = self.impl(lambda: p.d(**kw))
            tw = outcome(lambda: T().d(**kw))
            self.compare(idx, "d_closed" if o[1] else "d", oc, tw, False)
        elif q in ("derivative", "unit_tangent"):
            Tv = op["T"]
            oc = self.impl(lambda: getattr(p, q)(Tv))
            tw = outcome(lambda: getattr(T(), q)(Tv))
            if tolerant and self._near_boundary(pr, Tv):
                self.probe("inconclusive_boundary_query_on_rounding_tainted_path")
            else:
                self.compare(idx, "point", oc, tw, tolerant, rtol=1e-7, atol=1e-9 if tolerant else 0.0, what=q)
            if True:    # also after an interrupt: part of the work may have been done and cached
                # (marking is a superset: any query that may have asked segments for their default
                #  length makes the default-tolerance value a legitimate cached answer later)
                self._mark_path_tols(pr, *DEFAULT_TOL)
                warmed = Tv not in (0, 1)
        elif q in ("curvature", "normal"):
            Tv = op["T"]
            oc = self.impl(lambda: getattr(p, q)(Tv))
            tw = outcome(lambda: getattr(T(), q)(Tv))
            if tolerant and self._near_boundary(pr, Tv):
                self.probe("inconclusive_boundary_query_on_rounding_tainted_path")
            else:
                self.compare(idx, "point", oc, tw, tolerant, rtol=1e-6, atol=1e-9 if tolerant else 0.0, what=q)
            if True:    # also after an interrupt: part of the work may have been done and cached
                self._mark_path_tols(pr, *DEFAULT_TOL)
                warmed = Tv not in (0, 1)
        elif q in ("closed", "isclosedac"):
            oc = self.impl(lambda: (p.closed if q == "closed" else p.isclosedac()))
            tw = outcome(lambda: (self._twin_with_flag(pr).closed if q == "closed" else T().isclosedac()))
            self.compare(idx, "isclosed", oc, tw, False)
        elif q == "membership":
            if not self._have(s=[op["s"]]):
                return "skipped"
            target = self._obj(op["s"])

            def ask(path):
                out = [target in path, path.count(target)]
                try:
                    out.append(path.index(target))
                except ValueError:
                    out.append("ValueError")
                return out
            oc = self.impl(lambda: ask(p))
            tw = outcome(lambda: ask(Path(*[self._obj(sid) for sid in pr.model])))
            self.compare(idx, "seq", oc, tw, False)
        elif q == "radialrange":
            z = cz(op["z"])
            if has_arc:
                return "skipped"
            oc = self.impl(lambda: p.radialrange(z))
            tw = outcome(lambda: T().radialrange(z))
            if tolerant:
                self.probe("inconclusive_boundary_query_on_rounding_tainted_path")
            else:
                self.compare(idx, "point", oc, tw, False)
            if True:    # also after an interrupt: part of the work may have been done and cached
                self._mark_path_tols(pr, *DEFAULT_TOL)
        elif q == "area":
            if has_arc:
                return "skipped"          # arcs are approximated by thousands of chords: too slow, same code
            oc = self.impl(lambda: p.area())
            tw = outcome(lambda: T().area())
            self.compare(idx, "area", oc, tw, tolerant, rtol=1e-9, atol=(self._scale_atol(pr) ** 2) if tolerant else 0.0)
        elif q == "intersect":
            # not one of the queries the statement lists, but it reads the same object: whatever state
            # it keeps must follow every mutation too
            if not self._have(p=[op["other"]]):
                return "skipped"
            other = self.paths[op["other"]]
            if (has_arc or any(self.segs[x].kind == "A" for x in other.model)) or \
                    len(pr.model) * len(other.model) > 16 or not pr.model or not other.model:
                return "skipped"

            def ask(a, b):
                out = []
                for (T1, s1, t1), (T2, s2, t2) in a.intersect(b):
                    out.append((float(T1), float(t1), float(T2), float(t2), a.index(s1), b.index(s2)))
                return out
            if other is pr or any(self._obj(x) == self._obj(y) for x in pr.model for y in other.model):
                return "skipped"      # coincident curves: the intersection routine is not meant for them
            oc = self.impl(lambda: _with_alarm(3.0, lambda: ask(p, other.obj)))
            tw = outcome(lambda: _with_alarm(3.0, lambda: ask(T(), self.twin_path(other))))
            if (oc[0] == "e" and oc[1] == "_Alarm") or (tw[0] == "e" and tw[1] == "_Alarm"):
                self.probe("intersect_query_abandoned_after_time_limit")
            elif tolerant or self.path_taint(other) or self._cur_strict or any(self.segs[x].strict for x in other.model):
                # (its T values are fractions of path length: as length-dependent as T2t)
                self.probe("inconclusive_boundary_query_on_rounding_tainted_path")
            else:
                self.compare(idx, "intersect", oc, tw, False)
            if True:    # also after an interrupt: part of the work may have been done and cached
                self._mark_path_tols(pr, *DEFAULT_TOL)
                self._mark_path_tols(other, *DEFAULT_TOL)
        elif q == "iscontinuous":
            oc = self.impl(lambda: p.iscontinuous())
            tw = outcome(lambda: T().iscontinuous())
            self.compare(idx, q, oc, tw, False)
        elif q == "isclosed":
            oc = self.impl(lambda: p.isclosed())
            tw = outcome(lambda: T().isclosed())
            self.compare(idx, q, oc, tw, False)
        elif q == "len":
            oc = outcome(lambda: (len(p), [self.sid_of_obj(p[i]) for i in range(len(p))]))
            tw = ("v", (len(pr.model), list(pr.model)))
            self.compare(idx, "seq", oc, tw, False)
        elif q == "repr":
            oc = outcome(lambda: repr(p))
            tw = outcome(lambda: repr(T()))
            self.compare(idx, q, oc, tw, False)
        elif q == "eq":
            if not self._have(p=[op["other"]]):
                return "skipped"
            other = self.paths[op["other"]]
            oc = outcome(lambda: (p == other.obj, p != other.obj))
            tw = outcome(lambda: (T() == self.twin_path(other), T() != self.twin_path(other)))
            self.compare(idx, q, oc, tw, False)
            if pr.closed_flag != other.closed_flag and oc == ("v", (True, False)):
                self.probe("closed_flag_path_compared_equal_to_unflagged_path")
        elif q == "eq_twin":
            # p against a freshly built path of its own current segments: must be equal, both ways
            oc = outcome(lambda: (p == T(), T() == p, p != T()))
            self.compare(idx, "eq", oc, ("v", (True, True, False)), False)
        else:
            raise HarnessError("unknown path query %r" % q)
        if oc[0] == "e":
            self.bump(self.faults, "natural_failure")
        if oc[0] == "i":
            self.probe("interrupt_inside_path_query" if q != "length_fail" else "interrupt")
        if warmed and oc[0] == "v":
            pr.warm = True
        if warmed:
            self.hash_sweep(idx)      # a cache was (re)filled: equality/hash of everything live must not notice
        entry["out"] = self._render(oc) if oc[0] != "i" else {"interrupted": True}
        if q == "intersect":
            entry["out"] = {"not_logged": "runs under a wall-clock limit; its outcome must not enter the digest"}
        return "ok"

    @staticmethod
    def _is_degenerate(rec):
        if rec.kind == "A":
            return False
        try:
            b = rec.obj.bpoints()
            return all(z == b[0] for z in b)
        except Exception:
            return False

    def _seg_atol(self, rec):
        """absolute slack for length/coordinate-valued answers of a rounding-tainted object:
        1e-9 of its size (so that answers that are legitimately ~0 are not compared relatively)"""
        o = rec.obj
        try:
            pts = [o.start, o.end] + ([o.control] if rec.kind == "Q" else []) + \
                  ([o.control1, o.control2] if rec.kind == "C" else [])
            return 1e-9 * max(abs(complex(z)) for z in pts)
        except Exception:
            return 0.0

    def _scale_atol(self, pr):
        return max([self._seg_atol(self.segs[sid]) for sid in pr.model] or [0.0])

    @staticmethod
    def _near_total(L, s):
        """s is within rounding distance of the total length L (an outcome tuple): on an object whose
        cached length may legitimately differ from a fresh one in the last bits, `s <= length` can
        then go either way."""
        if L[0] != "v":
            return True
        try:
            L = float(L[1])
            return abs(float(s) - L) <= 1e-9 * abs(L)
        except (TypeError, ValueError):
            return True

    def _near_boundary_s(self, pr, s):
        """s is within rounding distance of a cumulative segment length of the twin."""
        try:
            acc = 0.0
            for sid in pr.model:
                L = self.fresh_len(self.segs[sid], *DEFAULT_TOL)
                if L[0] != "v":
                    return True
                acc += float(L[1])
                if abs(acc - float(s)) <= 1e-9 * max(abs(acc), 1e-300):
                    return True
        except (TypeError, ValueError):
            return True
        return False

    def _near_boundary(self, pr, Tv):
        """True when T is within 1e-7 of a segment boundary of the twin (public t2T only)."""
        try:
            tw = self.twin_path(pr)
            n = len(pr.model)
            for k in range(n):
                for t in (0.0, 1.0):
                    b = tw.t2T(k, t)
                    if abs(b - Tv) <= 1e-7:
                        return True
        except Exception:
            return True
        return False

    # ---- end of run -------------------------------------------------------------------------------
    def finish(self):
        self.hash_sweep(len(self.log) - 1 if self.log else 0)
        cfgc = ("scipy" if self.quad else "fallback") + ("+interrupting" if self.config.get("interrupting")
                                                          else "+fault_free")
        stats = {
            "steps": len(self.log),
            "faults": dict(self.faults),
            "probes": dict(self.probes),
            "counters": dict(self.counters),
            "states": sorted(self.states),
            "transitions": sorted(self.transitions),
            "nontrivial": bool(self.nontrivial),
            "config_class": cfgc,
            "sim_time": 0.0,
        }
        return {"digest": digest_of(self.log), "violations": self.violations, "stats": stats,
                "log": self.log}


def _short(v):
    r = repr(v)
    return r if len(r) <= 200 else r[:200] + "..."


# ----------------------------------------------------------------------------------------------
# replay = execute an explicit history
# ----------------------------------------------------------------------------------------------

def replay(hist, keep_log=False):
    w = World(hist["config"])
    try:
        for i, op in enumerate(hist["ops"]):
            w.step(i, op)
        res = w.finish()
    finally:
        w.close()
    if not keep_log:
        res.pop("log", None)
    return res


# ----------------------------------------------------------------------------------------------
# the seeded generator (runs online with the executor so that it can look at the arena)
# ----------------------------------------------------------------------------------------------

PATH_MUT = ["setitem", "setslice", "insert", "append", "extend", "extend_self", "iadd", "delitem",
            "delslice", "pop", "remove", "reverse", "clear", "set_start", "set_end", "approx_arcs", "set_closed",
            "setslice_reversed", "extend_failing", "replace_same_ends"]
PATH_Q = ["length", "length_T", "length_tol", "length_fail", "point", "T2t", "t2T", "ilength",
          "cropped", "start", "end", "bbox", "d", "iscontinuous", "isclosed", "len", "repr", "eq",
          "eq_twin", "derivative", "unit_tangent", "curvature", "normal", "closed", "isclosedac",
          "membership", "radialrange", "intersect", "area"]
SEG_Q = ["length", "length_tol", "length_fail", "length_t", "point", "bbox", "ilength", "repr", "eq",
         "derivative", "unit_tangent", "poly", "points", "length_rev"]
CREATE = ["new_seg", "dup_seg", "new_path", "seg_reversed", "seg_copy", "path_reversed", "path_slice",
          "path_subpaths", "path_reparse", "path_deepcopy", "path_pickle", "path_transform", "seg_split",
          "path_concat"]


class Gen:
    def __init__(self, run_seed, tier):
        self.st = Streams(run_seed)
        self.tier = tier
        c = self.st["config"]
        self.quad = c.random() < 0.72 if _REAL_QUAD_AVAILABLE else False
        self.interrupting = c.random() < 0.25
        if self.quad:
            self.scale = c.choice([1.0, 1.0, 1.0, 100.0, 1e-3, 37.5])
        else:
            self.scale = c.choice([1e-5, 1e-6, 1e-6])
        self.family = c.choice(["int", "int", "half", "generic"])
        kinds = ["L", "Q", "C", "A"]
        self.kind_w = [c.choice([0, 1, 1, 2, 3]) for _ in kinds]
        if sum(self.kind_w) == 0:
            self.kind_w = [1, 1, 1, 1]
        if not self.quad:
            # the fallback integrator is slow on arcs/cubics: keep them, but fewer
            self.kind_w[2] = min(self.kind_w[2], 2)
            self.kind_w[3] = min(self.kind_w[3], 1)
        s = self.scale
        self.errors = [1e-12, c.choice([1e-9, 1e-6, 1e-3]) * s, c.choice([0.5, 10.0, 1e3]) * s]
        self.depths = [5, c.choice([3, 4, 2]), c.choice([0, 1])]
        if c.random() < 0.3:
            # some runs also ask for MORE than the default accuracy
            self.errors.append(c.choice([1e-14, 1e-13, 1e-15]))
            self.depths.append(c.choice([6, 7]))
        # swarm: enabled op kinds
        self.mut_on = [m for m in PATH_MUT if c.random() < 0.7] or ["setitem", "set_start"]
        self.q_on = [q for q in PATH_Q if c.random() < 0.75] or ["length", "start"]
        if "length" not in self.q_on and c.random() < 0.8:
            self.q_on.append("length")
        self.sq_on = [q for q in SEG_Q if c.random() < 0.7] or ["length"]
        self.create_on = [k for k in CREATE if c.random() < 0.6]
        self.segmut_on = c.random() < 0.6
        self.w_mut = c.choice([2, 3, 4])
        self.w_q = c.choice([3, 4, 6])
        self.w_sq = c.choice([0, 1, 2])
        self.w_create = c.choice([1, 1, 2])
        self.w_segmut = c.choice([1, 2]) if self.segmut_on else 0
        n = 5
        while n < 40 and c.random() < 0.93:
            n += 1
        self.nops = n
        self.npaths = c.choice([1, 1, 2, 3])
        self.long_path = c.randint(100, 140) if c.random() < 0.025 else 0
        self.nsegs = c.randint(2, 8)
        self.next_sid = 0
        self.next_pid = 0
        self.queue = []
        self.last = None   # (kind, pid) of the previous op, for the bias of 2.4

    def config(self):
        return {"quad": self.quad, "interrupting": self.interrupting, "scale": self.scale,
                "family": self.family, "errors": self.errors, "depths": self.depths}

    # ---- argument draws ---------------------------------------------------------------------------
    def coord(self, r):
        f = self.family
        if f == "int":
            v = r.randint(-4, 4)
            if v == 0 and r.random() < 0.3:
                v = -0.0
        elif f == "half":
            v = r.randint(-8, 8) / 2.0
        else:
            v = r.uniform(-10, 10)
        return v * self.scale

    def pt(self, r):
        return complex(self.coord(r), self.coord(r))

    def colliding(self, r, z):
        """a point different from z whose Python hash equals hash(z), if there is a cheap one:
        hash(-1.0) == hash(-2.0) in CPython, component-wise for complex"""
        if z is None:
            return None
        z = complex(z)
        sw = {-1.0: -2.0, -2.0: -1.0}
        cands = []
        if z.real in sw:
            cands.append(complex(sw[z.real], z.imag))
        if z.imag in sw:
            cands.append(complex(z.real, sw[z.imag]))
        return r.choice(cands) if cands else None

    def new_seg_op(self, r, start=None, kind=None):
        k = kind or r.choices(["L", "Q", "C", "A"], weights=self.kind_w)[0]
        sid = self.next_sid
        self.next_sid += 1
        a = start if start is not None else self.pt(r)
        if k == "A":
            for _ in range(20):
                b = self.pt(r)
                if b != a:
                    break
            else:
                b = a + self.scale
            rad = complex(abs(self.coord(r)) + self.scale * r.choice([0.5, 1, 2]),
                          abs(self.coord(r)) + self.scale * r.choice([0.5, 1, 2]))
            return {"op": "new_seg", "id": sid, "kind": "A",
                    "arc": {"start": zc(a), "radius": zc(rad), "rotation": float(r.choice([0, 0, 30, -45, 90, 123.5])),
                            "large_arc": r.random() < 0.5, "sweep": r.random() < 0.5, "end": zc(b)}}
        n = {"L": 2, "Q": 3, "C": 4}[k]
        pts = [a] + [self.pt(r) for _ in range(n - 1)]
        x = r.random()
        if x < 0.04:
            pts = [a] * n                                   # a zero-length segment
        elif x < 0.08 and n > 2:
            b = pts[-1]
            pts = [a] + [a + (b - a) * (j / (n - 1.0)) for j in range(1, n - 1)] + [b]   # collinear, evenly spaced
        elif x < 0.11 and n > 2:
            pts[-1] = a                                     # closed curve: start == end
        return {"op": "new_seg", "id": sid, "kind": k, "pts": [zc(p) for p in pts]}

    def idx(self, r, n):
        """index with weight on valid, boundary and invalid values"""
        x = r.random()
        if n == 0 or x < 0.08:
            return r.choice([n, n + 1, -n - 1, 0, -1])
        if x < 0.2:
            return r.randint(-n, -1)
        return r.randint(0, n - 1)

    def slc(self, r, n):
        x = r.random()
        if x < 0.15:
            return [None, None, None]
        if x < 0.25:
            return [None, None, r.choice([2, -1, -2])]
        a = r.randint(0, n) if n else 0
        b = r.randint(a, n) if n else 0
        if r.random() < 0.1:
            a, b = b, a
        return [a, b, None]

    def Tval(self, r, w, prec):
        x = r.random()
        if x < 0.1:
            return 0
        if x < 0.2:
            return 1
        if x < 0.27:
            return r.choice([-0.25, 1.5, 1.0000001])
        if x < 0.45 and prec.model:
            try:
                tw = w.twin_path(prec)
                k = r.randrange(len(prec.model))
                v = tw.t2T(k, r.choice([0.0, 1.0, 0.5]))
                if v == v:
                    return float(v)
            except Exception:
                pass
        return r.choice([0.5, 0.25, 0.75, r.random(), r.random()])

    def tol(self, r):
        x = r.random()
        if x < 0.2:
            return (self.errors[0], self.depths[0])
        return (r.choice(self.errors), r.choice(self.depths))

    # ---- next op ------------------------------------------------------------------------------------
    def seed_arena_ops(self, w):
        r = self.st["args"]
        ops = []
        segs = []
        for i in range(self.nsegs):
            start = None
            if segs and r.random() < 0.6:
                prev = segs[-1]
                start = cz(prev["arc"]["end"]) if prev["kind"] == "A" else cz(prev["pts"][-1])
            o = self.new_seg_op(r, start=start)
            segs.append(o)
            ops.append(o)
        if segs and r.random() < 0.35:
            # a closing line from the end of the last segment to the start of the first (closed paths:
            # isclosed(), d(use_closed_attrib=True), the parser's Z and its _closed flag)
            def endp(o):
                return cz(o["arc"]["end"]) if o["kind"] == "A" else cz(o["pts"][-1])

            def startp(o):
                return cz(o["arc"]["start"]) if o["kind"] == "A" else cz(o["pts"][0])
            a0, b0 = endp(segs[-1]), startp(segs[0])
            if a0 != b0:
                if r.random() < 0.25:
                    b0 = complex(math.nextafter(b0.real, math.inf), b0.imag)    # misses the start by one ulp
                o = {"op": "new_seg", "id": self.next_sid, "kind": "L", "pts": [zc(a0), zc(b0)]}
                self.next_sid += 1
                segs.append(o)
                ops.append(o)
            ops.append({"op": "new_path", "id": self.next_pid, "segs": [s["id"] for s in segs]})
            self.next_pid += 1
        if self.long_path:
            # a path of well over a hundred segments (implementations may switch algorithm with size)
            pos = self.pt(r)
            long_ids = []
            for _ in range(self.long_path):
                kind = r.choices(["L", "Q", "C"], weights=[6, 1, 1])[0] if self.quad else "L"
                o = self.new_seg_op(r, start=pos, kind=kind)
                pos = cz(o["pts"][-1])
                ops.append(o)
                long_ids.append(o["id"])
            ops.append({"op": "new_path", "id": self.next_pid, "segs": long_ids})
            self.next_pid += 1
        for k in range(self.npaths):
            n = r.randint(0 if r.random() < 0.1 else 1, min(4, len(segs)))
            a = r.randint(0, len(segs) - n)
            # distinct paths get distinct segment objects unless the seed says otherwise
            chosen = [s["id"] for s in segs[a:a + n]]
            ops.append({"op": "new_path", "id": self.next_pid, "segs": chosen})
            self.next_pid += 1
        return ops

    def free_sids(self, w):
        inpath = set()
        for pr in w.paths.values():
            inpath.update(pr.model)
        return [s for s in sorted(w.segs) if s not in inpath]

    def pick_segs(self, r, w, n):
        sids = sorted(w.segs)
        if not sids:
            return []
        return [r.choice(sids) for _ in range(n)]

    def next_op(self, w):
        r = self.st["ops"]
        a = self.st["args"]
        while self.queue:
            op = self.queue.pop(0)
            if op.get("p") is None or op["p"] in w.paths:
                return op
        pids = sorted(w.paths)
        sids = sorted(w.segs)
        if not pids:
            if not sids:
                return self.new_seg_op(a)
            pid = self.next_pid
            self.next_pid += 1
            return {"op": "new_path", "id": pid, "segs": self.pick_segs(a, w, a.randint(1, 3))}
        # bias (DESIGN 2.4): after a warming query -> mutate the same path; after a mutation -> query it
        cat = r.choices(["mut", "q", "sq", "create", "segmut"],
                        weights=[self.w_mut, self.w_q, self.w_sq, self.w_create, self.w_segmut])[0]
        pid = r.choice(pids)
        if self.last is not None and self.last[1] in w.paths and r.random() < 0.65:
            lk, lp = self.last
            pid = lp
            if lk == "warm":
                cat = "mut"
            elif lk == "mut":
                cat = "q"
        pr = w.paths[pid]
        n = len(pr.model)
        op = None
        if cat == "mut":
            m = r.choice(self.mut_on)
            op = self.mut_op(m, a, w, pid, n)
            self.last = ("mut", pid)
        elif cat == "q":
            q = r.choice(self.q_on)
            op = self.pq_op(q, a, w, pr)
            if op.get("q") == "intersect" and a.random() < 0.6:
                far = self.pt(a) * 3
                self.queue.append({"op": a.choice(["set_end", "set_start"]), "p": pid, "z": zc(far)})
                self.queue.append({"op": "q", "on": "p", "id": pid, "q": "intersect", "other": op["other"]})
            if op.get("q") == "area" and a.random() < 0.5:
                # orientation-dependent answer: ask, re-orient the path in place, ask again
                sb = self.next_sid
                self.next_sid += 64
                self.queue.append({"op": "setslice_reversed", "p": pid, "sbase": sb})
                self.queue.append({"op": "q", "on": "p", "id": pid, "q": "area"})
            self.last = ("warm" if q in ("length", "length_tol", "length_T", "t2T", "T2t", "point",
                                          "ilength", "cropped", "length_fail", "derivative",
                                          "unit_tangent") else "q", pid)
        elif cat == "sq" and sids:
            q = r.choice(self.sq_on)
            op = self.sq_op(q, a, w, a.choice(sids))
            self.last = None
        elif cat == "segmut":
            free = [s for s in self.free_sids(w) if w.segs[s].kind != "A"]
            pool = free if (free and a.random() < 0.9) else [s for s in sids if w.segs[s].kind != "A"]
            if pool:
                sid = a.choice(pool)
                rec = w.segs[sid]
                attr = a.choice({"L": ("start", "end"), "Q": ("start", "control", "end"),
                                 "C": ("start", "control1", "control2", "end")}[rec.kind])
                z = self.pt(a)
                for at2 in ("start", "control", "control1", "control2", "end"):
                    cz2 = self.colliding(a, getattr(rec.obj, at2)) if hasattr(rec.obj, at2) else None
                    if cz2 is not None and a.random() < 0.6:
                        attr, z = at2, cz2          # same hash, another value
                        break
                op = {"op": "seg_set", "s": sid, "attr": attr, "z": zc(z)}
                self.last = None
        if op is None:
            op = self.create_op(r, a, w, pids, sids)
            self.last = None
        # attach an interrupt to integrator-using queries
        if self.interrupting and op.get("op") == "q" and op["q"] in (
                "length", "length_tol", "length_T", "point", "T2t", "t2T", "ilength", "cropped",
                "length_t", "derivative", "unit_tangent") and self.st["faults"].random() < 0.3:
            f = self.st["faults"]
            op["fault"] = {"kind": "interrupt", "at": f.choice([1, 1, 2, 3, 5, 8, 13, 21, 34, 60])}
        return op

    def mut_op(self, m, a, w, pid, n):
        sids = sorted(w.segs)
        if m == "setitem":
            pr = w.paths[pid]
            if pr.model and a.random() < 0.15:
                # write back a segment that is EQUAL to the one it replaces but another object: a fresh one
                # built from the current defining values (for an Arc whose endpoint was assigned through
                # Path.start/end that is an equal arc with another parameterisation)
                i = a.randrange(len(pr.model))
                dup = self.dup_op(a, w.segs[pr.model[i]], nudge=False)
                if dup is not None:
                    self.queue.append({"op": "setitem", "p": pid, "i": i, "s": dup["id"]})
                    return dup
            return {"op": m, "p": pid, "i": self.idx(a, n), "s": a.choice(sids)}
        if m == "setslice":
            k = a.choice([0, 0, 1, 1, 2, 3])
            return {"op": m, "p": pid, "sl": self.slc(a, n), "segs": self.pick_segs(a, w, k)}
        if m == "insert":
            return {"op": m, "p": pid, "i": self.idx(a, n + 1), "s": a.choice(sids)}
        if m == "append":
            return {"op": m, "p": pid, "s": a.choice(sids)}
        if m in ("extend", "iadd"):
            return {"op": m, "p": pid, "segs": self.pick_segs(a, w, a.choice([0, 1, 2, 2]))}
        if m == "extend_self":
            return {"op": m, "p": pid}
        if m == "delitem":
            return {"op": m, "p": pid, "i": self.idx(a, n)}
        if m == "delslice":
            return {"op": m, "p": pid, "sl": self.slc(a, n)}
        if m == "pop":
            return {"op": m, "p": pid, "i": (None if a.random() < 0.4 else self.idx(a, n))}
        if m == "remove":
            pr = w.paths[pid]
            pool = pr.model if (pr.model and a.random() < 0.8) else sids
            return {"op": m, "p": pid, "s": a.choice(pool)}
        if m in ("reverse", "clear"):
            return {"op": m, "p": pid}
        if m == "extend_failing":
            segs = self.pick_segs(a, w, a.choice([2, 3]))
            return {"op": m, "p": pid, "segs": segs, "k": a.randrange(1, len(segs)), "iadd": a.random() < 0.4}
        if m == "replace_same_ends":
            # a segment leaves the path and dies; a NEW one with the same ends and another interior takes
            # its place (and, in CPython, very likely its address)
            pr = w.paths[pid]
            cand = [i for i, sid in enumerate(pr.model) if pr.model.count(sid) == 1 and w.segs[sid].kind in ("Q", "C")
                    and not any(sid in o.model for o in w.paths.values() if o is not pr)]
            if not cand:
                return {"op": "reverse", "p": pid}
            i = a.choice(cand)
            sid = pr.model[i]
            o = w.segs[sid].obj
            nid = self.next_sid
            self.next_sid += 1
            pts = [complex(z) for z in o.bpoints()]
            for j in range(1, len(pts) - 1):
                pts[j] = self.pt(a)
            self.queue.append({"op": "q", "on": "p", "id": pid, "q": "length"})
            return {"op": "replace_same_ends", "p": pid, "i": i, "id": nid, "inner": [zc(z) for z in pts[1:-1]]}
        if m == "set_closed":
            return {"op": m, "p": pid, "value": a.random() < 0.7}
        if m == "setslice_reversed":
            sb = self.next_sid
            self.next_sid += 64
            return {"op": m, "p": pid, "sbase": sb}
        if m == "approx_arcs":
            sb = self.next_sid
            self.next_sid += 64
            return {"op": m, "p": pid, "kind": a.choice(["cubics", "quads"]), "error": a.choice([0.1, 0.1, 0.25, 0.05]),
                    "sbase": sb}
        if m in ("set_start", "set_end"):
            pr = w.paths[pid]
            z = self.pt(a)
            if pr.model:
                cur = getattr(w.segs[pr.model[0 if m == "set_start" else -1]].obj, m[4:], None)
                cz2 = self.colliding(a, cur) if cur is not None else None
                if cz2 is not None and a.random() < 0.5:
                    z = cz2
            return {"op": m, "p": pid, "z": zc(z)}
        raise HarnessError(m)

    def pq_op(self, q, a, w, pr):
        op = {"op": "q", "on": "p", "id": pr.pid, "q": q}
        n = len(pr.model)
        if q == "length_T":
            op["T0"], op["T1"] = self.Tval(a, w, pr), self.Tval(a, w, pr)
        elif q == "length_tol":
            op["e"], op["m"] = self.tol(a)
        elif q == "length_fail":
            if self.quad and a.random() < 0.7:
                op["q"] = "length"
        elif q in ("point", "T2t", "derivative", "unit_tangent", "curvature", "normal"):
            op["T"] = self.Tval(a, w, pr)
        elif q == "membership":
            pool = pr.model if (pr.model and a.random() < 0.7) else sorted(w.segs)
            op["s"] = a.choice(pool)
        elif q == "radialrange":
            op["z"] = zc(self.pt(a))
        elif q == "t2T":
            op["k"], op["t"] = self.idx(a, n), a.choice([0, 1, 0.5, a.random()])
        elif q == "ilength":
            if not self.quad and any(w.segs[s].kind in ("C", "A") for s in pr.model):
                op["q"] = "length"
            else:
                L = outcome(lambda: w.twin_path(pr).length())
                L = L[1] if L[0] == "v" and isinstance(L[1], (int, float, np.floating)) else 1.0
                op["s"] = float(L) * a.choice([0, 1, 0.5, a.random(), a.random(), 1.5, -0.1])
        elif q == "cropped":
            if not self.quad and any(w.segs[s].kind in ("A",) for s in pr.model):
                op["q"] = "length"
            else:
                op["T0"], op["T1"] = self.Tval(a, w, pr), self.Tval(a, w, pr)
        elif q == "d":
            op["opts"] = [a.random() < 0.5, a.random() < 0.5, a.random() < 0.5]
        elif q in ("eq", "intersect"):
            op["other"] = a.choice(sorted(w.paths))
        return op

    def sq_op(self, q, a, w, sid):
        rec = w.segs[sid]
        op = {"op": "q", "on": "s", "id": sid, "q": q}
        if q == "length_tol":
            op["e"], op["m"] = self.tol(a)
        elif q == "length_fail":
            if self.quad and a.random() < 0.7:
                op["q"] = "length"
        elif q == "length_t":
            t0 = a.choice([0, 0, 0.25, a.random()])
            op["t0"], op["t1"] = t0, a.choice([1, 1, 0.75, a.random()])
            if a.random() < 0.2:
                op["t0"], op["t1"] = 1, 0   # the pair QuadraticBezier's length cache is keyed on
        elif q in ("point", "derivative", "unit_tangent"):
            op["t"] = a.choice([0, 1, 0.5, a.random()])
        elif q == "poly":
            if rec.kind == "A":
                op["q"] = "bbox"
        elif q == "ilength":
            if not self.quad and rec.kind in ("C", "A"):
                op["q"] = "length"
            else:
                L = w.fresh_len(rec, *DEFAULT_TOL)
                L = L[1] if L[0] == "v" and isinstance(L[1], (int, float, np.floating)) else 1.0
                op["s"] = float(L) * a.choice([0, 1, 0.5, a.random(), 1.5])
        elif q == "eq":
            op["other"] = a.choice(sorted(w.segs))
        return op

    def dup_op(self, a, src, nudge=True):
        o = src.obj
        if src.kind == "A":
            if o.start == o.end:
                return None
            rot = float(o.rotation)
            if nudge and a.random() < 0.35:
                rot += 360.0 * a.choice([1, -1, 2])     # the same ellipse, rotation given another way round
            sid = self.next_sid
            self.next_sid += 1
            return {"op": "new_seg", "id": sid, "kind": "A",
                    "arc": {"start": zc(o.start), "radius": zc(o.radius), "rotation": rot,
                            "large_arc": bool(o.large_arc), "sweep": bool(o.sweep), "end": zc(o.end)}}
        if any(z is None for z in o.bpoints()):
            # (parse_path of a degenerate d-string can yield Line(start=0j, end=None); nothing to copy)
            return None
        pts = [complex(z) for z in o.bpoints()]
        if nudge and a.random() < 0.3:
            j = a.randrange(len(pts))
            pts[j] = complex(math.nextafter(pts[j].real, math.inf), pts[j].imag)
        sid = self.next_sid
        self.next_sid += 1
        return {"op": "new_seg", "id": sid, "kind": src.kind, "pts": [zc(z) for z in pts]}

    def create_op(self, r, a, w, pids, sids):
        k = r.choice(self.create_on) if self.create_on else "new_seg"
        if k == "new_seg" or not sids:
            return self.new_seg_op(a)
        if k == "dup_seg":
            # a fresh object with the same (or 1-ulp different) control points as a live segment
            return self.dup_op(a, w.segs[a.choice(sids)]) or self.new_seg_op(a)
        if k == "new_path":
            pid = self.next_pid
            self.next_pid += 1
            return {"op": "new_path", "id": pid, "segs": self.pick_segs(a, w, a.randint(0, 3))}
        if k in ("seg_reversed", "seg_copy"):
            sid = self.next_sid
            self.next_sid += 1
            return {"op": k, "s": a.choice(sids), "id": sid}
        if k == "seg_split":
            sid = self.next_sid
            self.next_sid += 2
            return {"op": k, "s": a.choice(sids), "id": sid, "t": a.choice([0.5, 0.25, a.random()])}
        pid = self.next_pid
        self.next_pid += 1
        src = a.choice(pids)
        if k in ("path_reversed", "path_deepcopy", "path_pickle"):
            sb = self.next_sid
            self.next_sid += 32
            return {"op": k, "p": src, "id": pid, "sbase": sb}
        if k == "path_concat":
            return {"op": k, "paths": [a.choice(pids) for _ in range(a.choice([2, 2, 3]))], "id": pid}
        if k == "path_transform":
            sb = self.next_sid
            self.next_sid += 32
            kind = a.choice(["translated", "translated", "rotated", "scaled"])
            op = {"op": k, "p": src, "id": pid, "sbase": sb, "kind": kind, "z": zc(self.pt(a))}
            if kind == "rotated":
                op["deg"] = a.choice([90.0, 180.0, 30.0, -45.0])
            if kind == "scaled":
                op["sx"], op["sy"] = a.choice([2.0, 0.5, -1.0]), a.choice([2.0, 0.5, 3.0])
                if a.random() < 0.5:
                    op["sx"] = op["sy"] = a.choice([2.0, 0.5, -1.0, -2.0])     # uniform, also mirrored
            return op
        if k == "path_slice":
            return {"op": k, "p": src, "id": pid, "sl": self.slc(a, len(w.paths[src].model))}
        if k == "path_subpaths":
            self.next_pid += 8
            return {"op": k, "p": src, "idbase": pid}
        if k == "path_reparse":
            sb = self.next_sid
            self.next_sid += 32
            return {"op": k, "p": src, "id": pid, "sbase": sb,
                    "opts": [a.random() < 0.4, a.random() < 0.7, a.random() < 0.3]}
        raise HarnessError(k)


def generate_and_run(run_seed, tier):
    g = Gen(run_seed, tier)
    cfg = g.config()
    w = World(cfg)
    ops = []
    try:
        for op in g.seed_arena_ops(w):
            w.step(len(ops), op)
            ops.append(op)
        for _ in range(g.nops):
            op = g.next_op(w)
            w.step(len(ops), op)
            ops.append(op)
            if len(w.paths) > 6:
                # keep the arena small: forget the oldest path (not an operation on the library)
                del w.paths[sorted(w.paths)[0]]
        res = w.finish()
    finally:
        w.close()
    res.pop("log", None)
    hist = {"property": NAME, "seed": run_seed, "config": cfg, "ops": ops}
    return hist, res


# ----------------------------------------------------------------------------------------------
# shrinking moves and signatures
# ----------------------------------------------------------------------------------------------

def shrink_moves(hist):
    ops = hist["ops"]

    def with_op(i, new):
        h = dict(hist)
        h["ops"] = ops[:i] + [new] + ops[i + 1:]
        return h
    # drop faults
    for i, op in enumerate(ops):
        if "fault" in op:
            o = dict(op)
            del o["fault"]
            yield with_op(i, o)
    if hist["config"].get("interrupting") and not any("fault" in o for o in ops):
        h = dict(hist)
        h["config"] = dict(hist["config"], interrupting=False)
        yield h
    # simpler segment classes / coordinates
    for i, op in enumerate(ops):
        if op["op"] == "new_seg":
            if op["kind"] == "A":
                a = op["arc"]
                yield with_op(i, {"op": "new_seg", "id": op["id"], "kind": "C",
                                  "pts": [a["start"], a["radius"], [a["radius"][1], a["radius"][0]], a["end"]]})
            elif op["kind"] == "C":
                p = op["pts"]
                yield with_op(i, {"op": "new_seg", "id": op["id"], "kind": "Q", "pts": [p[0], p[1], p[3]]})
            elif op["kind"] == "Q":
                p = op["pts"]
                yield with_op(i, {"op": "new_seg", "id": op["id"], "kind": "L", "pts": [p[0], p[2]]})
    # smaller segment lists / indices toward 0 / default tolerances
    for i, op in enumerate(ops):
        if op["op"] in ("new_path", "setslice", "extend", "iadd") and len(op["segs"]) > 1:
            for j in range(len(op["segs"])):
                o = dict(op)
                o["segs"] = op["segs"][:j] + op["segs"][j + 1:]
                yield with_op(i, o)
        if "i" in op and op["i"] not in (0, None):
            o = dict(op)
            o["i"] = 0
            yield with_op(i, o)
        if op.get("q") == "length_tol" and (op["e"], op["m"]) != DEFAULT_TOL:
            o = dict(op)
            o["q"] = "length"
            o.pop("e")
            o.pop("m")
            yield with_op(i, o)
        if op["op"] == "q" and op.get("q") == "d" and any(op["opts"]):
            o = dict(op)
            o["opts"] = [False, False, False]
            yield with_op(i, o)


def signature(hist, res, key):
    """Symptom family + the op kinds left in the minimised history + segment classes involved +
    necessary configuration bits (DESIGN 3.5)."""
    kinds = []
    classes = set()
    for op in hist["ops"]:
        n = op["op"]
        if n == "new_seg":
            classes.add({"L": "Line", "Q": "Quad", "C": "Cubic", "A": "Arc"}[op["kind"]])
            continue
        if n == "new_path":
            continue
        if n == "q":
            n = "q." + op["q"]
            if "fault" in op:
                n += "!interrupt"
        kinds.append(n)
    cfg = []
    if not hist["config"].get("quad", True):
        cfg.append("fallback")
    return "%s | %s | %s | %s" % (key, ",".join(sorted(kinds)), ",".join(sorted(classes)),
                                  ",".join(cfg) or "-")


def describe(hist, res, key):
    for v in res["violations"]:
        if v["key"] == key:
            return "%s after ops [%s]: impl=%s fresh=%s" % (
                v["query"], ", ".join(_opname(o) for o in hist["ops"]),
                json_short(v["detail"].get("impl")), json_short(v["detail"].get("fresh")))
    return key


def _opname(o):
    return ("q." + o["q"]) if o["op"] == "q" else o["op"]


def json_short(x):
    import json
    s = json.dumps(x, sort_keys=True, default=str)
    return s if len(s) < 160 else s[:160] + "..."


# ----------------------------------------------------------------------------------------------
# evidence metadata
# ----------------------------------------------------------------------------------------------

RULE = ("A case is one simulated run: a seeded swarm configuration (scipy seam on/off, interrupting or "
        "fault-free, coordinate family/scale, class mix, enabled op kinds, tolerance menu) and a history "
        "of 7-50 explicit operations (arena setup, mutations through Path's interface, aliasing object "
        "creations, segment control-point assignments, queries, naturally failing operations, injected "
        "interrupts) executed against the real classes with the three oracles after every operation. "
        "Non-trivial: at least one mutation was executed on a path (or control point on a segment) "
        "after a query had warmed its length cache. Distinct: distinct sha256 digests of the complete "
        "event log (ops, arguments, outcomes) among the non-trivial runs.")
STATE_MEASURE = ("states = distinct abstract path states reached, where a state is (Path._length cached?, "
                 "_lengths cached?, cached start/end agree with the segments?, empty?, _closed?, contains Arc?, "
                 "same segment object at two indices?, min(len,4), per-segment (class, cache warm?, tolerance "
                 "class, cache dict shared?) for the first 4 segments); transitions = distinct (state, op kind). "
                 "Private attributes are read for this accounting only, never for a verdict.")
SIM_TIME_NOTE = "not applicable: C16 has no clock; progress is counted in logical steps (steps_executed)"
REAL_VS_STUB = {
    "real": ["svgpathtools.path (Path, Line, QuadraticBezier, CubicBezier, Arc)", "svgpathtools.parser",
             "svgpathtools.bezier/polytools", "numpy", "scipy.integrate.quad (when the run's configuration has scipy)"],
    "stub": [],
    "seams": ["svgpathtools.path._quad_available set per run (the library's own seam for scipy absent)",
              "svgpathtools.path.quad / .segment_length wrapped by a pass-through shim that can raise "
              "SimInterrupt at the k-th integrand evaluation (interrupting configuration only)"],
}
ASSUMPTIONS = [
    "sampling, not proof: histories are seeded samples plus all histories of the stated short depth over a reduced alphabet",
    "the oracle is the same code at a different history (a fresh twin); history-independent errors are out of scope (C06 etc.)",
    "numpy/scipy/CPython 3.12 are deterministic for equal inputs in equal processes (measured by selftest-determinism)",
    "segments edited while inside another live path retire that path from the arena (the property promises nothing there)",
    "on rounding-tainted objects (both ends of a reversed() relation, and paths holding them) answers are compared with rtol 1e-9, joints are inconclusive, and derivative/unit_tangent/curvature/normal/cropped/ilength/area/intersect/radialrange are executed but not judged",
    "after a stricter-than-default tolerance request the object's other length-dependent answers are not judged (its lengths stay judged by membership in the set of legitimately cached values)",
    "intersect runs under a 3 s wall-clock limit and its outcome is not logged (keeps digests independent of real time)",
]
EXPECTED_PROBES = [
    "mutation_after_warm_cache", "query_after_mutation_after_warm", "query_on_empty_path", "path_emptied",
    "nondefault_tolerance_query", "reversed_shares_cache", "control_point_reassigned_after_warm_cache",
    "edited_segment_shares_cache_with_reversed_copy", "same_segment_object_at_two_indices",
    "endpoint_assigned_where_segment_is_at_two_indices", "endpoint_assigned_on_arc", "closed_flag_path_created",
    "closed_flag_path_compared_equal_to_unflagged_path", "natural_RecursionError",
    "path_shares_segments_with_other_path", "path_retired_segment_edited_behind_its_back",
    "path_cloned_with_its_caches", "query_on_path_of_total_length_zero", "arcs_approximated_in_place",
    "extend_with_failing_iterable", "new_segment_got_the_address_of_a_dead_one",
]


# ----------------------------------------------------------------------------------------------
# bounded-exhaustive short histories over a reduced alphabet (DESIGN 3.8)
# ----------------------------------------------------------------------------------------------

def _ex_setup():
    return [
        {"op": "new_seg", "id": 0, "kind": "L", "pts": [[0, 0], [2, 0]]},
        {"op": "new_seg", "id": 1, "kind": "C", "pts": [[2, 0], [3, 1], [3, 2], [2, 3]]},
        {"op": "new_seg", "id": 2, "kind": "Q", "pts": [[2, 3], [1, 4], [0, 0]]},
        {"op": "new_seg", "id": 3, "kind": "L", "pts": [[5, 0], [6, 1]]},
        {"op": "new_seg", "id": 4, "kind": "C", "pts": [[0, 0], [1, 2], [-2, 3], [2, 0]]},
        {"op": "new_seg", "id": 5, "kind": "A",
         "arc": {"start": [0, 0], "radius": [2, 1], "rotation": 30.0, "large_arc": True, "sweep": False,
                 "end": [2, 0]}},
        {"op": "new_path", "id": 0, "segs": [0, 1, 2]},
    ]


def _ex_alphabet():
    P = 0
    q = lambda name, **kw: dict({"op": "q", "on": "p", "id": P, "q": name}, **kw)  # noqa: E731
    return [
        {"op": "setitem", "p": P, "i": 0, "s": 4},
        {"op": "setitem", "p": P, "i": -1, "s": 3},
        {"op": "setslice", "p": P, "sl": [None, None, None], "segs": []},
        {"op": "setslice", "p": P, "sl": [1, 2, None], "segs": [3, 4]},
        {"op": "insert", "p": P, "i": 0, "s": 4},
        {"op": "insert", "p": P, "i": 1, "s": 5},
        {"op": "append", "p": P, "s": 5},
        {"op": "append", "p": P, "s": 4},
        {"op": "extend_self", "p": P},
        {"op": "iadd", "p": P, "segs": [3]},
        {"op": "delitem", "p": P, "i": 0},
        {"op": "delitem", "p": P, "i": -1},
        {"op": "delslice", "p": P, "sl": [None, None, None]},
        {"op": "pop", "p": P, "i": None},
        {"op": "remove", "p": P, "s": 1},
        {"op": "reverse", "p": P},
        {"op": "clear", "p": P},
        {"op": "set_start", "p": P, "z": [1, 1]},
        {"op": "set_end", "p": P, "z": [4, 4]},
        {"op": "seg_set", "s": 4, "attr": "control1", "z": [7, 7]},
        {"op": "seg_reversed", "s": 4, "id": None},
        {"op": "path_reversed", "p": P, "id": None, "sbase": None},
        {"op": "path_reparse", "p": P, "id": None, "sbase": None, "opts": [False, True, False]},
        {"op": "q", "on": "s", "id": 4, "q": "length"},
        {"op": "q", "on": "s", "id": 4, "q": "length_tol", "e": 0.5, "m": 0},
        q("length"),
        q("length_tol", e=0.5, m=0),
        q("length_tol", e=1e-6, m=3),
        q("length_T", T0=0.2, T1=0.7),
        q("point", T=0.4),
        q("T2t", T=0.6),
        q("t2T", k=1, t=0.5),
        q("cropped", T0=0.1, T1=0.8),
        q("start"),
        q("end"),
        q("bbox"),
        q("d", opts=[False, True, False]),
        q("isclosed"),
        q("eq_twin"),
        q("area"),
        {"op": "setslice_reversed", "p": P, "sbase": None},
    ]


def exhaustive_histories(depth):
    import itertools
    alpha = _ex_alphabet()
    setup = _ex_setup()
    hists = []
    cfgs = [{"quad": True, "interrupting": False}] if _REAL_QUAD_AVAILABLE else []
    for cfg in cfgs:
        for d in range(1, depth + 1):
            for combo in itertools.product(range(len(alpha)), repeat=d):
                ops = list(setup)
                for pos, k in enumerate(combo):
                    op = dict(alpha[k])
                    if "id" in op and op["id"] is None:
                        op["id"] = 100 + pos
                    if "sbase" in op and op["sbase"] is None:
                        op["sbase"] = 1000 + 50 * pos
                    ops.append(op)
                hists.append({"property": NAME, "seed": -1, "config": cfg, "ops": ops})
    info = {"alphabet_size": len(alpha), "depth": depth, "histories": len(hists),
            "configurations": cfgs, "complete": True,
            "note": "every sequence of 1..depth ops over the reduced alphabet on a fixed 3-segment path"}
    return hists, info
