"""Deterministic-simulation kernel and worlds for the svgpathtools properties (see DESIGN.md)."""
